#!/bin/bash
# usage: tools/seedtest.sh <seeded dir name> <check id>...
# Applies a seeded defect to /repo, runs the given quick checks, and ALWAYS restores /repo.
set -u
S=/verif/seeded/$1; shift
cd /repo || exit 2
if ! git diff --quiet; then echo "/repo has uncommitted changes"; exit 2; fi
git apply "$S/patch.diff" || { echo "patch does not apply"; exit 2; }
trap 'git -C /repo checkout -- . ' EXIT
cd /verif
for c in "$@"; do
  out=$(./check "$c" --tier quick 2>&1); rc=$?
  n=$(echo "$out" | grep -c '^VIOLATION')
  echo "RESULT seeded=$(basename $S) check=$c rc=$rc violations=$n"
  echo "$out" | grep -A1 '^VIOLATION' | head -4 | cut -c1-400
  echo "$out" | grep 'TOOL-ERROR' -A5 | head -8
done

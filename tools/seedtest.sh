#!/bin/bash
# usage: tools/seedtest.sh <seeded dir name> <check id>...
# Applies a seeded defect to /repo, runs the given quick checks, and ALWAYS restores /repo.
set -u
S=/verif/seeded/$1; shift
cd /repo || exit 2
if ! git diff --quiet; then echo "/repo has uncommitted changes"; exit 2; fi
git apply "$S/patch.diff" || { echo "patch does not apply"; exit 2; }
# evidence files describe the unchanged tree: keep them out of the way of these runs
rm -rf /verif/work/evidence_backup && cp -r /verif/evidence /verif/work/evidence_backup
trap 'git -C /repo checkout -- . ; rm -rf /verif/evidence && mv /verif/work/evidence_backup /verif/evidence' EXIT
cd /verif
for c in "$@"; do
  out=$(./check "$c" --tier quick 2>&1); rc=$?
  n=$(echo "$out" | grep -c '^VIOLATION')
  echo "RESULT seeded=$(basename $S) check=$c rc=$rc violations=$n"
  echo "$out" | grep -A1 '^VIOLATION' | head -4 | cut -c1-400
  echo "$out" | grep 'TOOL-ERROR' -A5 | head -8
done

#!/bin/bash
# runs every check's quick (or given) tier on the current tree; prints one line per check
tier=${1:-quick}
cd "$(dirname "$0")/.."
for p in C01 C02 C03 C04 C05 C06 C07 C08 C09 C10 C11 C12 C13 C14 C15 C16 C17 C18 C19; do
  s=$(date +%s)
  out=$(./check $p --tier $tier 2>&1); rc=$?
  e=$(( $(date +%s) - s ))
  echo "$p rc=$rc ${e}s $(echo "$out" | grep -c '^VIOLATION') violations; $(echo "$out" | tail -1 | cut -c1-160)"
  [ $rc -ne 0 ] && echo "$out" | grep -E "VIOLATION|TOOL-ERROR|KNOWN" -A2 | head -12
done

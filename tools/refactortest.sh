#!/bin/bash
# usage: tools/refactortest.sh <name> [check ids...]   -- applies /verif/refactors/<name>/patch.diff (a behaviour-preserving
# change) to /repo, runs every quick check, restores /repo and the evidence files.  Every check must stay silent.
set -u
R=/verif/refactors/$1
cd /repo || exit 2
if ! git diff --quiet; then echo "/repo has uncommitted changes"; exit 2; fi
git apply "$R/patch.diff" || { echo "patch does not apply"; exit 2; }
rm -rf /verif/work/evidence_backup && cp -r /verif/evidence /verif/work/evidence_backup
trap 'git -C /repo checkout -- . ; git -C /repo clean -fdq src; rm -rf /verif/evidence && mv /verif/work/evidence_backup /verif/evidence' EXIT
N=$1; shift
if [ $# -eq 0 ]; then
  /verif/tools/runall.sh quick 2>&1 | tee /verif/work/refactor_$N.log
else
  cd /verif
  for p in "$@"; do
    s=$(date +%s); out=$(./check $p --tier quick 2>&1); rc=$?; e=$(( $(date +%s) - s ))
    echo "$p rc=$rc ${e}s $(echo "$out" | grep -c '^VIOLATION') violations; $(echo "$out" | tail -1 | cut -c1-160)"
    [ $rc -ne 0 ] && echo "$out" | grep -E "VIOLATION|TOOL-ERROR" -A2 | head -12
  done 2>&1 | tee /verif/work/refactor_${N}_sel.log
fi

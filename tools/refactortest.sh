#!/bin/bash
# usage: tools/refactortest.sh <name>   -- applies /verif/refactors/<name>/patch.diff (a behaviour-preserving
# change) to /repo, runs every quick check, restores /repo and the evidence files.  Every check must stay silent.
set -u
R=/verif/refactors/$1
cd /repo || exit 2
if ! git diff --quiet; then echo "/repo has uncommitted changes"; exit 2; fi
git apply "$R/patch.diff" || { echo "patch does not apply"; exit 2; }
rm -rf /verif/work/evidence_backup && cp -r /verif/evidence /verif/work/evidence_backup
trap 'git -C /repo checkout -- . ; git -C /repo clean -fdq src; rm -rf /verif/evidence && mv /verif/work/evidence_backup /verif/evidence' EXIT
/verif/tools/runall.sh quick 2>&1 | tee /verif/work/refactor_$1.log

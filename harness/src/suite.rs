//! Type-erased interface to one cipher suite of opaque-ke.  Everything outside
//! `suite_body.rs` is written once against this trait; `suite_body.rs` is the thin adapter
//! that is instantiated per (OPRF suite, KE group, KSF) combination.
use crate::rng::TapeRng;
use std::any::Any;

pub type St = Box<dyn Any + Send + Sync>;

#[derive(Clone, Debug, PartialEq, Eq)]
pub enum Res {
    Ok,
    InvalidLogin,
    Reflected,
    /// a message / state given to the step failed to decode
    DecodeErr,
    /// ProtocolError::SerializationError or voprf input-length error raised inside a step
    TooLong,
    Ksf,
    Custom(u32),
    Other(String),
    Panic(String),
}

impl Res {
    pub fn class(&self) -> &'static str {
        match self {
            Res::Ok => "Ok",
            Res::InvalidLogin => "InvalidLogin",
            Res::Reflected => "Reflected",
            Res::DecodeErr => "DecodeErr",
            Res::TooLong => "TooLong",
            Res::Ksf => "Ksf",
            Res::Custom(_) => "Custom",
            Res::Other(_) => "Other",
            Res::Panic(_) => "Panic",
        }
    }
}

#[derive(Clone, Copy, Debug, PartialEq, Eq)]
pub struct Lens {
    pub noe: usize,
    pub nok: usize,
    pub npk: usize,
    pub nsk: usize,
    pub nh: usize,
    pub nn: usize,
}

#[derive(Clone, Copy, Debug, PartialEq, Eq)]
pub enum Codec {
    Native,
    Bincode,
    Json,
}

impl Codec {
    pub fn parse(s: &str) -> Codec {
        match s {
            "native" => Codec::Native,
            "bincode" => Codec::Bincode,
            "json" => Codec::Json,
            _ => panic!("codec {s}"),
        }
    }
}

/// KSF parameter of a client finish step: None = not passed; Some((instance, fail))
pub type KsfArg = Option<(u32, bool)>;

pub struct CRegFinishOut {
    pub upload: Vec<u8>,
    pub export_key: Vec<u8>,
    pub server_s_pk: Vec<u8>,
}
pub struct CLogFinishOut {
    pub fin: Vec<u8>,
    pub session_key: Vec<u8>,
    pub export_key: Vec<u8>,
    pub server_s_pk: Vec<u8>,
}

#[derive(Clone, Copy, Debug, PartialEq, Eq)]
pub enum Kind {
    Setup,
    File,
    Reg,
    Cli,
    Srv,
}

/// The eleven decoders of C10 (plus helpers)
pub const DECODERS: [&str; 11] = [
    "RegistrationRequest",
    "RegistrationResponse",
    "RegistrationUpload",
    "CredentialRequest",
    "CredentialResponse",
    "CredentialFinalization",
    "ServerRegistration",
    "ServerSetup",
    "ClientRegistration",
    "ClientLogin",
    "ServerLogin",
];

pub trait Suite: Send + Sync {
    fn name(&self) -> &'static str;
    fn oprf(&self) -> &'static str;
    fn ke(&self) -> &'static str;
    fn ksf_kind(&self) -> &'static str;
    fn lens(&self) -> Lens;

    // ---- server setup
    fn setup_new(&self, rng: &mut TapeRng) -> St;
    fn setup_with_key(&self, rng: &mut TapeRng, key: &[u8], ext: bool) -> Result<St, Res>;
    fn setup_deser(&self, bytes: &[u8], ext: bool) -> Result<St, Res>;
    fn setup_ser(&self, st: &St) -> Vec<u8>;
    fn setup_spk(&self, st: &St) -> Vec<u8>;

    // ---- registration
    fn creg_start(&self, rng: &mut TapeRng, pw: &[u8]) -> Result<(Vec<u8>, St), Res>;
    fn sreg_start(&self, setup: &St, req: &[u8], cid: &[u8]) -> Result<Vec<u8>, Res>;
    #[allow(clippy::too_many_arguments)]
    fn creg_finish(
        &self,
        st: &St,
        rng: &mut TapeRng,
        pw: &[u8],
        resp: &[u8],
        idu: Option<&[u8]>,
        ids: Option<&[u8]>,
        ksf: KsfArg,
    ) -> Result<CRegFinishOut, Res>;
    fn sreg_finish(&self, upload: &[u8]) -> Result<St, Res>;

    // ---- login
    fn clog_start(&self, rng: &mut TapeRng, pw: &[u8]) -> Result<(Vec<u8>, St), Res>;
    #[allow(clippy::too_many_arguments)]
    fn slog_start(
        &self,
        rng: &mut TapeRng,
        setup: &St,
        file: Option<&[u8]>,
        req: &[u8],
        cid: &[u8],
        ctx: Option<&[u8]>,
        idu: Option<&[u8]>,
        ids: Option<&[u8]>,
    ) -> Result<(Vec<u8>, St), Res>;
    #[allow(clippy::too_many_arguments)]
    fn clog_finish(
        &self,
        st: &St,
        pw: &[u8],
        resp: &[u8],
        ctx: Option<&[u8]>,
        idu: Option<&[u8]>,
        ids: Option<&[u8]>,
        ksf: KsfArg,
    ) -> Result<CLogFinishOut, Res>;
    fn slog_finish(&self, st: &St, fin: &[u8]) -> Result<Vec<u8>, Res>;

    // ---- persistence of the five state types
    fn ser(&self, kind: Kind, st: &St) -> Vec<u8>;
    /// save and reload through the codec; Err(description) if the codec itself fails
    fn reload(&self, kind: Kind, st: &St, codec: Codec) -> Result<St, String>;

    // ---- decoders (C10 C11 C12): Ok(re-encoding) or Err(error description)
    fn decode(&self, decoder: &str, bytes: &[u8]) -> Result<Vec<u8>, String>;
    /// serde encoding of the object that `native` decodes to
    fn to_serde(&self, decoder: &str, native: &[u8], codec: Codec) -> Result<Vec<u8>, String>;
    /// decode a serde encoding; Ok(native re-encoding) / Err
    fn from_serde(&self, decoder: &str, enc: &[u8], codec: Codec) -> Result<Vec<u8>, String>;

    // ---- key-pair API of the KE group (C19)
    fn ke_derive(&self, seed: &[u8]) -> Result<Vec<u8>, String>;
    fn ke_public(&self, sk: &[u8]) -> Result<Vec<u8>, String>;
    fn ke_dh(&self, sk: &[u8], pk: &[u8]) -> Result<Vec<u8>, String>;
    fn ke_random_sk(&self, rng: &mut TapeRng) -> Vec<u8>;
    fn ke_sk_roundtrip(&self, sk: &[u8], codec: Codec) -> Result<Vec<u8>, String>;
    fn ke_pk_roundtrip(&self, pk: &[u8], codec: Codec) -> Result<Vec<u8>, String>;
    fn ke_keypair_from_slice(&self, sk: &[u8]) -> Result<(Vec<u8>, Vec<u8>), String>;
}

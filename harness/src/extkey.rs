//! A server static key held behind the external-key interface (`SecretKey`), with a call
//! counter, a fault plan and a record of which operations were used.
use generic_array::GenericArray;
use opaque_ke::errors::InternalError;
use opaque_ke::key_exchange::group::KeGroup;
use opaque_ke::keypair::{PrivateKey, PublicKey, SecretKey};
use std::cell::RefCell;
use std::marker::PhantomData;

#[derive(Clone, Copy, Debug, PartialEq, Eq)]
pub struct ExtErr(pub u32);

#[derive(Default, Clone, Debug)]
pub struct ExtStats {
    pub calls: u32,
    pub public_key: u32,
    pub dh: u32,
    pub serialize: u32,
    pub deserialize: u32,
    /// fail the n-th (1-based) public_key / diffie_hellman call counted from the last reset
    pub fail_at: u32,
}

thread_local! {
    pub static EXT: RefCell<ExtStats> = RefCell::new(ExtStats::default());
}

pub fn reset(fail_at: u32) {
    EXT.with(|e| {
        *e.borrow_mut() = ExtStats { fail_at, ..Default::default() };
    });
}
pub fn stats() -> ExtStats {
    EXT.with(|e| e.borrow().clone())
}

fn tick(kind: u8) -> Result<(), ExtErr> {
    EXT.with(|e| {
        let mut e = e.borrow_mut();
        e.calls += 1;
        if kind == 0 {
            e.public_key += 1
        } else {
            e.dh += 1
        }
        if e.fail_at != 0 && e.calls == e.fail_at {
            Err(ExtErr(e.calls))
        } else {
            Ok(())
        }
    })
}

thread_local! {
    /// the "device": slot number -> private key bytes.  opaque-ke never sees these bytes.
    static DEVICE: RefCell<Vec<Vec<u8>>> = RefCell::new(Vec::new());
}

fn store(key: &[u8]) -> u32 {
    DEVICE.with(|d| {
        let mut d = d.borrow_mut();
        if let Some(i) = d.iter().position(|k| k == key) {
            return i as u32 + 1;
        }
        d.push(key.to_vec());
        d.len() as u32
    })
}
fn load(slot: u32) -> Option<Vec<u8>> {
    DEVICE.with(|d| d.borrow().get(slot.wrapping_sub(1) as usize).cloned())
}
/// handle <-> slot: SkLen bytes, the slot number in the low-order position of either byte order
fn handle_bytes(slot: u32, len: usize) -> Vec<u8> {
    let mut h = vec![0u8; len];
    h[0] = slot as u8;
    h[len - 1] = slot as u8;
    h[1] = 0xEE; // marks a handle: never a key
    h
}
fn slot_of(h: &[u8]) -> Option<u32> {
    if h.len() < 3 || h[1] != 0xEE || h[0] != h[h.len() - 1] || h[2..h.len() - 1].iter().any(|b| *b != 0) {
        return None;
    }
    Some(h[0] as u32)
}
/// harness-side view: the key bytes behind a handle (for the specification's "same key" bookkeeping)
pub fn key_behind(handle: &[u8]) -> Option<Vec<u8>> {
    slot_of(handle).and_then(load)
}
/// harness-side: put a key on the device, get the handle opaque-ke will be given
pub fn handle_for(key: &[u8]) -> Vec<u8> {
    handle_bytes(store(key), key.len())
}

/// The key material lives "elsewhere" (DEVICE): opaque-ke only ever sees this handle, and the
/// handle's serialization is the slot number, not the key.
pub struct ExtKey<KG: KeGroup> {
    slot: u32,
    _p: PhantomData<KG>,
}

impl<KG: KeGroup> Clone for ExtKey<KG> {
    fn clone(&self) -> Self {
        ExtKey { slot: self.slot, _p: PhantomData }
    }
}

impl<KG: KeGroup> ExtKey<KG> {
    /// put key bytes on the device
    pub fn from_bytes(b: &[u8]) -> Result<Self, ()> {
        PrivateKey::<KG>::deserialize(b).map_err(|_| ())?;
        Ok(ExtKey { slot: store(b), _p: PhantomData })
    }
    fn inner(&self) -> PrivateKey<KG> {
        PrivateKey::<KG>::deserialize(&load(self.slot).expect("slot")).ok().expect("device holds valid keys")
    }
}

impl<KG: KeGroup> SecretKey<KG> for ExtKey<KG> {
    type Error = ExtErr;
    type Len = KG::SkLen;

    fn diffie_hellman(
        &self,
        pk: PublicKey<KG>,
    ) -> Result<GenericArray<u8, KG::PkLen>, InternalError<Self::Error>> {
        tick(1).map_err(InternalError::Custom)?;
        self.inner().diffie_hellman(pk).map_err(InternalError::into_custom)
    }

    fn public_key(&self) -> Result<PublicKey<KG>, InternalError<Self::Error>> {
        tick(0).map_err(InternalError::Custom)?;
        self.inner().public_key().map_err(InternalError::into_custom)
    }

    fn serialize(&self) -> GenericArray<u8, Self::Len> {
        EXT.with(|e| e.borrow_mut().serialize += 1);
        GenericArray::clone_from_slice(&handle_bytes(self.slot, <KG::SkLen as generic_array::typenum::Unsigned>::USIZE))
    }

    fn deserialize(input: &[u8]) -> Result<Self, InternalError<Self::Error>> {
        EXT.with(|e| e.borrow_mut().deserialize += 1);
        match slot_of(input).filter(|s| load(*s).is_some()) {
            Some(slot) if input.len() == <KG::SkLen as generic_array::typenum::Unsigned>::USIZE => Ok(ExtKey { slot, _p: PhantomData }),
            _ => Err(InternalError::PointError),
        }
    }
}

impl<KG: KeGroup> serde::Serialize for ExtKey<KG> {
    fn serialize<S: serde::Serializer>(&self, s: S) -> Result<S::Ok, S::Error> {
        serde::Serialize::serialize(&self.slot, s)
    }
}
impl<'de, KG: KeGroup> serde::Deserialize<'de> for ExtKey<KG> {
    fn deserialize<D: serde::Deserializer<'de>>(d: D) -> Result<Self, D::Error> {
        let slot = <u32 as serde::Deserialize>::deserialize(d)?;
        if load(slot).is_none() {
            return Err(serde::de::Error::custom("unknown slot"));
        }
        Ok(ExtKey { slot, _p: PhantomData })
    }
}

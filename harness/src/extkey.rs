//! A server static key held behind the external-key interface (`SecretKey`), with a call
//! counter, a fault plan and a record of which operations were used.
use generic_array::GenericArray;
use opaque_ke::errors::InternalError;
use opaque_ke::key_exchange::group::KeGroup;
use opaque_ke::keypair::{PrivateKey, PublicKey, SecretKey};
use std::cell::RefCell;
use std::marker::PhantomData;

#[derive(Clone, Copy, Debug, PartialEq, Eq)]
pub struct ExtErr(pub u32);

#[derive(Default, Clone, Debug)]
pub struct ExtStats {
    pub calls: u32,
    pub public_key: u32,
    pub dh: u32,
    pub serialize: u32,
    pub deserialize: u32,
    /// fail the n-th (1-based) public_key / diffie_hellman call counted from the last reset
    pub fail_at: u32,
}

thread_local! {
    pub static EXT: RefCell<ExtStats> = RefCell::new(ExtStats::default());
}

pub fn reset(fail_at: u32) {
    EXT.with(|e| {
        *e.borrow_mut() = ExtStats { fail_at, ..Default::default() };
    });
}
pub fn stats() -> ExtStats {
    EXT.with(|e| e.borrow().clone())
}

fn tick(kind: u8) -> Result<(), ExtErr> {
    EXT.with(|e| {
        let mut e = e.borrow_mut();
        e.calls += 1;
        if kind == 0 {
            e.public_key += 1
        } else {
            e.dh += 1
        }
        if e.fail_at != 0 && e.calls == e.fail_at {
            Err(ExtErr(e.calls))
        } else {
            Ok(())
        }
    })
}

/// The key material lives "elsewhere": opaque-ke only ever sees this handle.
pub struct ExtKey<KG: KeGroup> {
    inner: PrivateKey<KG>,
    _p: PhantomData<KG>,
}

impl<KG: KeGroup> Clone for ExtKey<KG> {
    fn clone(&self) -> Self {
        ExtKey { inner: self.inner.clone(), _p: PhantomData }
    }
}

impl<KG: KeGroup> ExtKey<KG> {
    pub fn from_bytes(b: &[u8]) -> Result<Self, ()> {
        PrivateKey::<KG>::deserialize(b)
            .map(|inner| ExtKey { inner, _p: PhantomData })
            .map_err(|_| ())
    }
}

impl<KG: KeGroup> SecretKey<KG> for ExtKey<KG> {
    type Error = ExtErr;
    type Len = KG::SkLen;

    fn diffie_hellman(
        &self,
        pk: PublicKey<KG>,
    ) -> Result<GenericArray<u8, KG::PkLen>, InternalError<Self::Error>> {
        tick(1).map_err(InternalError::Custom)?;
        self.inner.diffie_hellman(pk).map_err(InternalError::into_custom)
    }

    fn public_key(&self) -> Result<PublicKey<KG>, InternalError<Self::Error>> {
        tick(0).map_err(InternalError::Custom)?;
        self.inner.public_key().map_err(InternalError::into_custom)
    }

    fn serialize(&self) -> GenericArray<u8, Self::Len> {
        EXT.with(|e| e.borrow_mut().serialize += 1);
        self.inner.serialize()
    }

    fn deserialize(input: &[u8]) -> Result<Self, InternalError<Self::Error>> {
        EXT.with(|e| e.borrow_mut().deserialize += 1);
        PrivateKey::<KG>::deserialize(input)
            .map(|inner| ExtKey { inner, _p: PhantomData })
            .map_err(InternalError::into_custom)
    }
}

impl<KG: KeGroup> serde::Serialize for ExtKey<KG> {
    fn serialize<S: serde::Serializer>(&self, s: S) -> Result<S::Ok, S::Error> {
        serde::Serialize::serialize(&self.inner, s)
    }
}
impl<'de, KG: KeGroup> serde::Deserialize<'de> for ExtKey<KG> {
    fn deserialize<D: serde::Deserializer<'de>>(d: D) -> Result<Self, D::Error> {
        <PrivateKey<KG> as serde::Deserialize>::deserialize(d).map(|inner| ExtKey { inner, _p: PhantomData })
    }
}

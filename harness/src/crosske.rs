//! C14 across key-exchange groups: what the client derives from its password, and what the server
//! evaluates, depend only on (password, OPRF seed, credential identifier, KSF) -- in the
//! specification the terms OExp / OKey / Rwd / MaskKey / ExportKey contain no key-exchange value.
//! The same scripted run (same password, identifier, OPRF seed, tapes) is executed on every suite
//! that shares an OPRF suite; the KE-independent outputs must be byte-identical across them.
use crate::conc::Profile;
use crate::suite::Suite;
use crate::world::World;
use serde_json::{json, Value};
use std::collections::BTreeMap;

fn ids(e: &Value) -> Vec<i64> {
    e["out"].as_array().map(|a| a.iter().map(|x| x.as_i64().unwrap_or(0)).collect()).unwrap_or_default()
}

/// runs the script on one suite; returns label -> bytes of the KE-independent values.  The blinding
/// randomness sits wherever the implementation puts it on the tape (possibly depending on the KE
/// group's lengths), so the SAME request elements `fixed` (those of the first suite of the group) are
/// what every server evaluates; the masking key does not depend on the blind at all.
fn script(suite: &dyn Suite, seed: u64, profile: &Profile, oprf_seed: &[u8], fixed: &mut Option<(Vec<u8>, Vec<u8>)>) -> Result<BTreeMap<&'static str, Vec<u8>>, String> {
    let mut w = World::new(suite, seed, profile.clone());
    let mut out: BTreeMap<&'static str, Vec<u8>> = BTreeMap::new();
    let run = |w: &mut World, e: Value| -> Result<(Vec<i64>, Vec<Vec<u8>>), String> {
        let (e2, o) = w.record(e);
        if o.res.class() != "Ok" {
            return Err(format!("{}: {:?}", e2["ev"], o.res));
        }
        Ok((ids(&e2), o.out))
    };
    let (s1, _) = run(&mut w, json!({"ev": "SetupNew", "id": 1, "tape": 1}))?; // [seed, ssk, fsk, spk]
    let (k, _) = run(&mut w, json!({"ev": "Mut", "field": "seed", "cls": "valid", "bytes": hex::encode(oprf_seed)}))?;
    run(&mut w, json!({"ev": "SetupFromParts", "id": 2, "parts": [k[0], s1[1], s1[2]], "mode": "direct", "extfail": false}))?;
    // the suite's own honest registration: the masking key
    let (r0, b0) = run(&mut w, json!({"ev": "CRegStart", "id": 1, "pw": -2, "tape": 101}))?;
    let (r1, _) = run(&mut w, json!({"ev": "SRegStart", "id": 2, "req": r0[0], "cid": -11}))?;
    let (r2, b2) = run(&mut w, json!({"ev": "CRegFinish", "id": 1, "pw": -2, "msg": [r1[0], r1[1]], "idu": 0, "ids": 0, "ksf": 0, "ksffail": false, "tape": 102}))?;
    out.insert("registration: masking key", b2[1].clone());
    run(&mut w, json!({"ev": "SRegFinish", "id": 1, "msg": [r2[0], r2[1], r2[2], r2[3]]}))?;
    let (l0, c0) = run(&mut w, json!({"ev": "CLogStart", "id": 1, "pw": -2, "tape": 201}))?;
    let (fb_reg, fb_log) = fixed.get_or_insert_with(|| (b0[0].clone(), c0[0].clone())).clone();
    // the same request elements evaluated by this suite's server (registration, login with and without a record)
    let (q1, _) = run(&mut w, json!({"ev": "Mut", "field": "blinded", "cls": "valid", "bytes": hex::encode(&fb_reg)}))?;
    let (_, e1) = run(&mut w, json!({"ev": "SRegStart", "id": 2, "req": q1[0], "cid": -11}))?;
    out.insert("registration: evaluated element (same request)", e1[0].clone());
    let (q2, _) = run(&mut w, json!({"ev": "Mut", "field": "blinded", "cls": "valid", "bytes": hex::encode(&fb_log)}))?;
    let (_, c1) = run(&mut w, json!({"ev": "SLogStart", "id": 1, "s": 2, "rec": [r2[0], r2[1], r2[2], r2[3]], "msg": [q2[0], l0[1], l0[2]],
        "cid": -11, "ctx": 0, "idu": 0, "ids": 0, "tape": 301, "extfail": false}))?;
    out.insert("login: evaluated element (same request)", c1[0].clone());
    let (_, c2) = run(&mut w, json!({"ev": "SLogStart", "id": 2, "s": 2, "rec": [], "msg": [q2[0], l0[1], l0[2]],
        "cid": -11, "ctx": 0, "idu": 0, "ids": 0, "tape": 302, "extfail": false}))?;
    out.insert("login without a record: evaluated element (same request)", c2[0].clone());
    Ok(out)
}

pub fn run(suites: &[&dyn Suite], seed: u64, profiles: &[Profile]) -> Value {
    let mut groups: BTreeMap<&str, Vec<&dyn Suite>> = BTreeMap::new();
    for s in suites {
        groups.entry(s.oprf()).or_default().push(*s);
    }
    let (mut runs, mut compared, mut vio) = (0usize, 0usize, Vec::new());
    for (oprf, ss) in &groups {
        if ss.len() < 2 {
            continue;
        }
        let nh = ss[0].lens().nh;
        for (pi, p) in profiles.iter().enumerate() {
            let oprf_seed: Vec<u8> = (0..nh).map(|i| (i as u8).wrapping_mul(31).wrapping_add(seed as u8).wrapping_add(pi as u8)).collect();
            let mut base: Option<(&str, BTreeMap<&'static str, Vec<u8>>)> = None;
            let mut fixed: Option<(Vec<u8>, Vec<u8>)> = None;
            for s in ss {
                crate::watch::context(format!("{} cross-KE script", s.name()));
                let r = std::panic::catch_unwind(std::panic::AssertUnwindSafe(|| script(*s, seed, p, &oprf_seed, &mut fixed))).unwrap_or_else(|_| Err("panic".into()));
                runs += 1;
                let m = match r {
                    Ok(m) => m,
                    Err(e) => {
                        vio.push(json!({"suite": s.name(), "kind": "error", "detail": format!("honest scripted run failed: {e}"), "profile": p.describe()}));
                        continue;
                    }
                };
                match &base {
                    None => base = Some((s.name(), m)),
                    Some((bn, bm)) => {
                        for (label, v) in &m {
                            compared += 1;
                            if bm.get(label) != Some(v) && vio.len() < 20 {
                                vio.push(json!({"suite": s.name(), "kind": "depends-on-ke-group", "profile": p.describe(),
                                    "detail": format!("{}: {} differs between {} and {} (same OPRF suite {}, same password, OPRF seed, credential identifier and tapes): {} vs {}",
                                        label, label, bn, s.name(), oprf, hex::encode(&bm[label][..bm[label].len().min(16)]), hex::encode(&v[..v.len().min(16)]))}));
                            }
                        }
                    }
                }
            }
        }
    }
    json!({"runs": runs, "values_compared": compared, "violations": vio})
}

//! C19: replay the behaviours of spec/Group.tla on the key-pair API of every KE group (paired
//! with every OPRF suite for seeded derivation), compare the equality pattern, and evaluate
//! every term with the reference arithmetic.
use crate::conc::Profile;
use crate::eval;
use crate::refgroup;
use crate::rng::TapeRng;
use crate::suite::{Codec, Suite};
use crate::world::Intern;
use rand::RngCore;
use serde_json::{json, Value};
use std::collections::HashMap;

pub struct GroupOut {
    /// an imported key was refused by the decoder: the behaviour does not apply
    pub refused: bool,
    pub steps: usize,
    pub values: usize,
    pub violation: Option<Value>,
}

fn fail(suite: &dyn Suite, step: usize, e: &Value, kind: &str, detail: String) -> Option<Value> {
    Some(json!({"suite": suite.name(), "step": step, "event": e, "kind": kind, "detail": detail}))
}

pub fn run_behaviour(suite: &dyn Suite, seed: u64, line: &Value) -> GroupOut {
    let events = line["events"].as_array().unwrap();
    let terms = line["terms"].as_array().unwrap();
    let refk = refgroup::ke_by_name(suite.ke());
    let refo = refgroup::oprf_by_name(suite.oprf());
    let nsk = suite.lens().nsk;
    let mut keys: HashMap<i64, Vec<u8>> = HashMap::new();
    let mut intern = Intern::default();
    let mut out = GroupOut { refused: false, steps: 0, values: 0, violation: None };
    let mut krand: HashMap<(i64, String), Vec<u8>> = HashMap::new();
    let mut seedbytes: HashMap<(i64, String), Vec<u8>> = HashMap::new();
    let mut kimp: HashMap<(i64, String), Vec<u8>> = HashMap::new();
    for (n, e) in events.iter().enumerate() {
        out.steps += 1;
        let k = e["k"].as_i64().unwrap_or(0);
        crate::watch::context(format!("{} key-pair API {}", suite.name(), e));
        let _running = crate::watch::enter();
        let r: Result<Vec<Vec<u8>>, String> = std::panic::catch_unwind(std::panic::AssertUnwindSafe(|| -> Result<Vec<Vec<u8>>, String> {
            match e["ev"].as_str().unwrap() {
                "Make" => {
                    let tape = e["tape"].as_i64().unwrap();
                    let cls = e["cls"].as_str().unwrap();
                    let sk = match cls {
                        "seed-rand" => {
                            let mut s = vec![0u8; nsk];
                            TapeRng::new(seed, tape).fill_bytes(&mut s);
                            seedbytes.insert((tape, "seed".to_string()), s.clone());
                            suite.ke_derive(&s)?
                        }
                        "seed-zeros" => suite.ke_derive(&vec![0u8; nsk])?,
                        "seed-ones" => suite.ke_derive(&vec![0xffu8; nsk])?,
                        "one" | "clampmin" => suite.ke_sk_roundtrip(&refk.extreme_sks()[0], Codec::Native)?,
                        "orderm1" | "clampmax" => suite.ke_sk_roundtrip(&refk.extreme_sks()[1], Codec::Native)?,
                        "random" => {
                            let b = suite.ke_random_sk(&mut TapeRng::new(seed, tape));
                            krand.insert((tape, "krand".to_string()), b.clone());
                            b
                        }
                        "import-raw" | "import-adj" => {
                            let mut b = vec![0u8; nsk];
                            TapeRng::new(seed, tape).fill_bytes(&mut b);
                            if cls == "import-adj" {
                                // into the range of the group (big-endian NIST scalars, little-endian ristretto
                                // scalars below the order, clamped Curve25519 scalars)
                                match suite.ke() {
                                    "Curve25519" => { b[0] &= 248; b[31] &= 127; b[31] |= 64; }
                                    "ristretto255" => b[31] &= 0x0f,
                                    "P-521" => { b[0] = 0; b[1] &= 0x7f; }
                                    _ => b[0] &= 0x7f,
                                }
                            }
                            match suite.ke_sk_roundtrip(&b, Codec::Native) {
                                Err(_) => return Err("import refused".into()),
                                Ok(sk) => {
                                    if sk != b {
                                        return Err(format!("imported private key {} is held / re-encoded as {}", hex::encode(&b), hex::encode(&sk)));
                                    }
                                    kimp.insert((tape, "kimp".to_string()), b.clone());
                                    b
                                }
                            }
                        }
                        c => return Err(format!("class {c}")),
                    };
                    keys.insert(k, sk.clone());
                    Ok(vec![sk])
                }
                "PublicOf" => Ok(vec![suite.ke_public(&keys[&k])?]),
                "Dh" => {
                    let p = e["peer"].as_i64().unwrap();
                    let pk = suite.ke_public(&keys[&p])?;
                    Ok(vec![suite.ke_dh(&keys[&k], &pk)?])
                }
                "Reload" => {
                    let codec = Codec::parse(e["codec"].as_str().unwrap());
                    let sk = suite.ke_sk_roundtrip(&keys[&k], codec)?;
                    let pk = suite.ke_pk_roundtrip(&suite.ke_public(&keys[&k])?, codec)?;
                    keys.insert(k, sk.clone());
                    Ok(vec![sk, pk])
                }
                "Pair" => {
                    let (sk, pk) = suite.ke_keypair_from_slice(&keys[&k])?;
                    Ok(vec![sk, pk])
                }
                other => Err(format!("event {other}")),
            }
        }))
        .unwrap_or_else(|_| Err("panic".into()));
        let outs = match r {
            Ok(o) => o,
            Err(m) if m == "import refused" => {
                out.refused = true;
                return out;
            }
            Err(m) => {
                out.violation = fail(suite, n, e, "error", format!("{}: key-pair API returned an error / panicked: {}", e["ev"], m));
                return out;
            }
        };
        let exp: Vec<usize> = e["out"].as_array().unwrap().iter().map(|x| x.as_u64().unwrap() as usize).collect();
        for (i, b) in outs.iter().enumerate() {
            let before = intern.vals.len();
            let id = intern.id(b);
            if id != exp[i] {
                let what = if exp[i] <= before { "specification says it EQUALS an earlier value" } else { "specification says it is a NEW value" };
                out.violation = fail(suite, n, e, "equality-pattern",
                    format!("{} output {}: value #{} vs specification #{} ({}): {}", e["ev"], i + 1, id, exp[i], what, hex::encode(b)));
                return out;
            }
        }
    }
    // exact values by the reference arithmetic
    let prof = Profile { pw: 0, cid: 0, ctx: 0, id: 0, seed: 0 };
    let mut ev = eval::Evaluator {
        profile: &prof, lens: suite.lens(), oprf: refo.as_ref(), ke: refk.as_ref(), hash: refo.hash(),
        ksf_kind: suite.ksf_kind(), observed: HashMap::new(), rnd: HashMap::new(), memo: HashMap::new(), evaluations: 0,
    };
    ev.rnd.extend(krand.into_iter());
    ev.rnd.extend(seedbytes.into_iter());
    ev.rnd.extend(kimp.into_iter());
    for (i, t) in terms.iter().enumerate() {
        let Some(obs) = intern.get(i + 1) else { break };
        out.values += 1;
        let is_sk = matches!(t[0].as_str().unwrap_or(""), "kdk" | "skc" | "krand");
        if is_sk && !refk.sk_valid(obs) {
            out.violation = fail(suite, 0, t, "invalid-private-key", format!("private key {} is zero / out of range / not clamped", hex::encode(obs)));
            return out;
        }
        match ev.eval(t, true) {
            Ok(b) if &b == obs => {}
            Ok(b) => {
                out.violation = fail(suite, 0, t, "bytes", format!(
                    "implementation {} ; reference arithmetic / DeriveDiffieHellmanKeyPair gives {}", hex::encode(obs), hex::encode(&b)));
                return out;
            }
            Err(e) => {
                out.violation = fail(suite, 0, t, "bytes", format!("cannot evaluate: {:?}", e));
                return out;
            }
        }
    }
    out
}

/// random keys beyond the enumerated classes: symmetry, pk consistency, round trips
pub fn random_keys(suite: &dyn Suite, seed: u64, n: usize) -> (usize, Option<Value>) {
    let refk = refgroup::ke_by_name(suite.ke());
    let nsk = suite.lens().nsk;
    let mut evals = 0;
    for i in 0..n {
        let mut rng = TapeRng::new(seed, 5000 + i as i64);
        crate::watch::context(format!("{} key-pair API: random_sk / derive / public / dh / round trips on tape {}", suite.name(), 5000 + i));
        let _running = crate::watch::enter();
        let r = std::panic::catch_unwind(std::panic::AssertUnwindSafe(|| -> Result<(), String> {
            let a = suite.ke_random_sk(&mut rng);
            let mut s = vec![0u8; nsk];
            rng.fill_bytes(&mut s);
            let b = suite.ke_derive(&s)?;
            let (pa, pb) = (suite.ke_public(&a)?, suite.ke_public(&b)?);
            if pa != refk.public(&a) || pb != refk.public(&b) {
                return Err("public key differs from reference".into());
            }
            let (d1, d2) = (suite.ke_dh(&a, &pb)?, suite.ke_dh(&b, &pa)?);
            if d1 != d2 {
                return Err(format!("Diffie-Hellman not symmetric: {} vs {}", hex::encode(&d1), hex::encode(&d2)));
            }
            if d1 != refk.dh(&a, &pb) {
                return Err("Diffie-Hellman differs from reference".into());
            }
            for c in [Codec::Native, Codec::Bincode, Codec::Json] {
                if suite.ke_sk_roundtrip(&a, c)? != a || suite.ke_pk_roundtrip(&pa, c)? != pa {
                    return Err(format!("key encoding does not round-trip through {:?}", c));
                }
            }
            let (s2, p2) = suite.ke_keypair_from_slice(&b)?;
            if s2 != b || p2 != pb {
                return Err("KeyPair::from_private_key_slice disagrees with public_key".into());
            }
            Ok(())
        }))
        .unwrap_or_else(|_| Err("panic".into()));
        evals += 1;
        if let Err(m) = r {
            return (evals, Some(json!({"suite": suite.name(), "kind": "random-keys", "detail": m, "tape": 5000 + i})));
        }
    }
    (evals, None)
}

//! Concretization: abstract pool atoms of the specification -> concrete byte strings.
//!
//! Atom index conventions (shared with the TLA+ configurations):
//!   0        the empty string
//!   1..9     passwords          10..19  credential identifiers
//!   20..29   contexts           30..39  identities
//!   90..     byte strings longer than 65535 bytes (LongFrom in Terms.tla)
//! A profile picks one FAMILY per class; within a family the k-th atom of the class gets
//! the k-th member, and members of one family are pairwise distinct (asserted), so that
//! "different atoms => different bytes" holds by construction.
use sha2::{Digest, Sha256, Sha384, Sha512};

#[derive(Clone, Debug)]
pub struct Profile {
    pub pw: usize,
    pub cid: usize,
    pub ctx: usize,
    pub id: usize,
    pub seed: u64,
}

pub const N_PW: usize = 13;
pub const N_CID: usize = 4;
pub const N_CTX: usize = 4;
pub const N_ID: usize = 5;

fn prng(seed: u64, tag: &str, k: usize, len: usize) -> Vec<u8> {
    let mut out = Vec::with_capacity(len + 32);
    let mut c = 0u32;
    while out.len() < len {
        let mut h = Sha256::new();
        h.update(seed.to_le_bytes());
        h.update(tag.as_bytes());
        h.update((k as u64).to_le_bytes());
        h.update(c.to_le_bytes());
        out.extend_from_slice(&h.finalize());
        c += 1;
    }
    out.truncate(len);
    out
}

fn long_with_tail(seed: u64, tag: &str, len: usize, k: usize) -> Vec<u8> {
    // one shared body, members differ only in the last byte
    let mut v = prng(seed, tag, 0, len);
    let l = v.len();
    v[l - 1] = (v[l - 1] & 0xf0) | (k as u8 & 0x0f);
    v
}

impl Profile {
    pub fn describe(&self) -> String {
        format!("pw-family {} cid-family {} ctx-family {} id-family {}", self.pw, self.cid, self.ctx, self.id)
    }

    pub fn atom(&self, n: i64) -> Vec<u8> {
        let s = self.seed;
        match n {
            0 => vec![],
            1..=9 => {
                let k = n as usize; // 1-based member
                match self.pw {
                    0 => format!("pw-{k}").into_bytes(),
                    // single-bit flips of one base string, at different positions
                    1 => {
                        let mut b = prng(s, "pwbase", 0, 12);
                        if k > 1 {
                            let bit = (k - 2) * 13 % (12 * 8);
                            b[bit / 8] ^= 1 << (bit % 8);
                        }
                        b
                    }
                    // proper prefixes / extensions
                    2 => b"hunter2hunter2"[..(14 - (k - 1)).max(1)].to_vec(),
                    // case changes
                    3 => match k {
                        1 => b"Password".to_vec(),
                        2 => b"password".to_vec(),
                        3 => b"PASSWORD".to_vec(),
                        _ => format!("PassworD{k}").into_bytes(),
                    },
                    // empty vs non-empty
                    4 => match k {
                        1 => vec![],
                        2 => vec![0u8],
                        3 => vec![b' '],
                        _ => vec![k as u8; k],
                    },
                    // embedded / trailing NUL
                    5 => match k {
                        1 => b"ab\0cd".to_vec(),
                        2 => b"ab".to_vec(),
                        3 => b"ab\0cd\0".to_vec(),
                        _ => format!("ab\0cd\0{k}").into_bytes(),
                    },
                    // trailing whitespace
                    6 => match k {
                        1 => b"pass".to_vec(),
                        2 => b"pass ".to_vec(),
                        3 => b"pass\n".to_vec(),
                        _ => format!("pass\t{k}").into_bytes(),
                    },
                    // 65535 bytes differing in the last byte
                    7 => long_with_tail(s, "pwlong", 65535, k),
                    // binary, 32 bytes
                    8 => prng(s, "pwbin", k, 32),
                    // one byte
                    9 => vec![k as u8],
                    // a long password and its digests (the HMAC / PBKDF2 "pre-hash" equivalence class: an
                    // implementation that compresses long inputs without domain separation makes them equal)
                    10 | 11 | 12 => {
                        let base = prng(s, "pwdigest", 0, if self.pw == 12 { 129 } else { 65535 });
                        match (self.pw, k) {
                            (_, 1) => base,
                            (11, 2) => Sha384::digest(&base).to_vec(),
                            (_, 2) => Sha512::digest(&base).to_vec(),
                            (11, 3) => Sha512::digest(&base)[..32].to_vec(),
                            (_, 3) => Sha256::digest(&base).to_vec(),
                            (_, 4) => Sha384::digest(&base).to_vec(),
                            _ => Sha512::digest([&base[..], &[k as u8]].concat()).to_vec(),
                        }
                    }
                    _ => vec![k as u8, 0x7f],
                }
            }
            10..=19 => {
                let k = (n - 9) as usize;
                match self.cid {
                    0 => format!("cid-{k}").into_bytes(),
                    // empty and prefixes of one another
                    1 => b"abcdefgh"[..(k - 1).min(8)].to_vec(),
                    // 1 KiB, differing at the end
                    2 => long_with_tail(s, "cid1k", 1024, k),
                    // 128 KiB
                    _ => long_with_tail(s, "cid128k", 128 * 1024, k),
                }
            }
            20..=29 => {
                let k = (n - 19) as usize;
                match self.ctx {
                    0 => format!("ctx-{k}").into_bytes(),
                    1 => vec![b'x'; 254 + k], // 255, 256, 257 ... bytes
                    2 => long_with_tail(s, "ctxlong", 65535, k),
                    _ => vec![0u8; k], // NUL bytes of different lengths
                }
            }
            30..=39 => {
                let k = (n - 29) as usize;
                match self.id {
                    0 => format!("id-{k}@example.com").into_bytes(),
                    1 => vec![b'i'; 254 + k],
                    2 => long_with_tail(s, "idlong", 65535, k),
                    3 => vec![0u8; k],
                    _ => prng(s, "idbin", k, 40),
                }
            }
            90..=99 => {
                // beyond the encodable limit
                let k = (n - 89) as usize;
                let len = [65536usize, 65537, 131072][k % 3];
                long_with_tail(s, "toolong", len, k)
            }
            _ => format!("atom-{n}").into_bytes(),
        }
    }
}

/// The profiles a run uses: every family of every class at least once (quick), or the
/// full product sampled by seed (thorough).
pub fn profiles(seed: u64, thorough: bool) -> Vec<Profile> {
    let n = if thorough { 40 } else { N_PW };
    (0..n)
        .map(|i| Profile {
            pw: i % N_PW,
            cid: (i + (seed as usize)) % N_CID,
            ctx: (i / 2 + (seed as usize)) % N_CTX,
            id: (i + 2 * (seed as usize) + i / N_ID) % N_ID,
            seed: seed.wrapping_mul(0x9e3779b97f4a7c15).wrapping_add(i as u64),
        })
        .collect()
}

#[cfg(test)]
mod tests {
    use super::*;
    #[test]
    fn injective() {
        for p in profiles(1, true) {
            for (lo, hi) in [(1, 9), (10, 19), (20, 29), (30, 39)] {
                for a in lo..=hi {
                    for b in a + 1..=hi {
                        if (lo, hi) == (10, 19) && p.cid == 1 && b > 18 {
                            continue;
                        }
                        assert_ne!(p.atom(a), p.atom(b), "{:?} {} {}", p, a, b);
                    }
                }
            }
        }
    }
}

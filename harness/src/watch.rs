//! Watchdog: a call into opaque-ke that does not return is a FINDING (C12: "fails to terminate"),
//! not a hung check.  Every guarded call stamps its start time into a per-thread slot; a monitor
//! thread reports the first call that has been running for longer than LIMIT, writes a replay file
//! and ends the process with exit code 3.
use std::sync::atomic::{AtomicU64, AtomicUsize, Ordering};
use std::sync::Mutex;
use std::time::{Duration, Instant};

const SLOTS: usize = 256;
pub const LIMIT: Duration = Duration::from_secs(60);

static START_MS: [AtomicU64; SLOTS] = [const { AtomicU64::new(0) }; SLOTS];
static CONTEXT: [Mutex<String>; SLOTS] = [const { Mutex::new(String::new()) }; SLOTS];
static NEXT: AtomicUsize = AtomicUsize::new(0);
static BASE: Mutex<Option<Instant>> = Mutex::new(None);

thread_local! {
    static SLOT: usize = NEXT.fetch_add(1, Ordering::Relaxed) % SLOTS;
}

fn now_ms() -> u64 {
    let mut b = BASE.lock().unwrap();
    let base = *b.get_or_insert_with(Instant::now);
    base.elapsed().as_millis() as u64 + 1
}

/// what this thread is doing (one string per protocol step / decoder input, not per call)
pub fn context(s: String) {
    SLOT.with(|i| *CONTEXT[*i].lock().unwrap() = s);
}

pub struct Running(usize);
/// marks a call into the code under test as running until the value is dropped
pub fn enter() -> Running {
    let i = SLOT.with(|i| *i);
    START_MS[i].store(now_ms(), Ordering::Relaxed);
    Running(i)
}
impl Drop for Running {
    fn drop(&mut self) {
        START_MS[self.0].store(0, Ordering::Relaxed);
    }
}

/// start the monitor (once per process)
pub fn start(replay_dir: String, prop: String) {
    let _ = now_ms();
    std::thread::spawn(move || loop {
        std::thread::sleep(Duration::from_secs(2));
        let now = now_ms();
        for i in 0..SLOTS {
            let s = START_MS[i].load(Ordering::Relaxed);
            if s != 0 && now.saturating_sub(s) > LIMIT.as_millis() as u64 {
                let ctx = CONTEXT[i].lock().map(|c| c.clone()).unwrap_or_default();
                let dir = if replay_dir.is_empty() { ".".to_string() } else { replay_dir.clone() };
                let path = format!("{}/{}-hang-{:08x}.json", dir, if prop.is_empty() { "C12" } else { &prop }, (now ^ (i as u64) << 20) as u32);
                let v = serde_json::json!({"kind": "nontermination", "limit_s": LIMIT.as_secs(), "context": ctx,
                    "detail": "a call into opaque-ke did not return"});
                let _ = std::fs::write(&path, serde_json::to_string(&v).unwrap());
                eprintln!("HANG replay={} context={}", path, ctx.chars().take(400).collect::<String>());
                println!("HANG replay={} context={}", path, ctx.chars().take(400).collect::<String>());
                std::process::exit(3);
            }
        }
    });
}

// Included once per cipher suite from suites.rs, inside a module that defines
//   type Oprf (voprf::CipherSuite), type Ke (KeGroup), type K (Ksf), fn make_ksf(inst, fail) -> Option<K>,
//   const NAME / OPRF / KE / KSF: &str
// Thin adapter: bytes in, bytes out; states are kept as values behind `St`.

use crate::extkey::{ExtErr, ExtKey};
use crate::rng::TapeRng;
use crate::suite::*;
use generic_array::typenum::Unsigned;
use opaque_ke::errors::{InternalError, ProtocolError};
use opaque_ke::key_exchange::group::KeGroup;
use opaque_ke::keypair::{KeyPair, PrivateKey, PublicKey, SecretKey};
use opaque_ke::{
    ClientLogin, ClientLoginFinishParameters, ClientRegistration,
    ClientRegistrationFinishParameters, CredentialFinalization, CredentialRequest,
    CredentialResponse, Identifiers, RegistrationRequest, RegistrationResponse,
    RegistrationUpload, ServerLogin, ServerLoginStartParameters, ServerRegistration, ServerSetup,
};

pub struct Cs;
impl opaque_ke::CipherSuite for Cs {
    type OprfCs = Oprf;
    type KeGroup = Ke;
    type KeyExchange = opaque_ke::key_exchange::tripledh::TripleDh;
    type Ksf = K;
}

type XKey = ExtKey<Ke>;
type OGroup = <Oprf as voprf::CipherSuite>::Group;
type OHash = <Oprf as voprf::CipherSuite>::Hash;

#[derive(Clone)]
pub enum SetupSt {
    Direct(ServerSetup<Cs>),
    Ext(ServerSetup<Cs, XKey>),
}

trait CustomCode {
    fn code(&self) -> u32;
}
impl CustomCode for core::convert::Infallible {
    fn code(&self) -> u32 {
        0
    }
}
impl CustomCode for ExtErr {
    fn code(&self) -> u32 {
        self.0
    }
}

fn classify<T: CustomCode + core::fmt::Debug>(e: &ProtocolError<T>) -> Res {
    match e {
        ProtocolError::InvalidLoginError => Res::InvalidLogin,
        ProtocolError::ReflectedValueError => Res::Reflected,
        ProtocolError::SerializationError => Res::TooLong,
        ProtocolError::LibraryError(InternalError::KsfError) => Res::Ksf,
        ProtocolError::LibraryError(InternalError::Custom(c)) => Res::Custom(c.code()),
        ProtocolError::LibraryError(InternalError::OprfError(voprf::Error::Input)) => Res::TooLong,
        other => Res::Other(format!("{:?}", other)),
    }
}

fn ids<'a>(idu: Option<&'a [u8]>, ids: Option<&'a [u8]>) -> Identifiers<'a> {
    Identifiers { client: idu, server: ids }
}

fn dc<T: 'static>(st: &St) -> &T {
    st.downcast_ref::<T>().expect("state type")
}

pub struct S;

impl Suite for S {
    fn name(&self) -> &'static str {
        NAME
    }
    fn oprf(&self) -> &'static str {
        OPRF
    }
    fn ke(&self) -> &'static str {
        KE
    }
    fn ksf_kind(&self) -> &'static str {
        KSF
    }
    fn lens(&self) -> Lens {
        Lens {
            noe: <OGroup as voprf::Group>::ElemLen::USIZE,
            nok: <OGroup as voprf::Group>::ScalarLen::USIZE,
            npk: <Ke as KeGroup>::PkLen::USIZE,
            nsk: <Ke as KeGroup>::SkLen::USIZE,
            nh: <OHash as digest::OutputSizeUser>::OutputSize::USIZE,
            nn: 32,
        }
    }

    // ------------------------------------------------------------------ setup
    fn setup_new(&self, rng: &mut TapeRng) -> St {
        Box::new(SetupSt::Direct(ServerSetup::<Cs>::new(rng)))
    }
    fn setup_with_key(&self, rng: &mut TapeRng, key: &[u8], ext: bool) -> Result<St, Res> {
        if ext {
            let k = XKey::from_bytes(key).map_err(|_| Res::DecodeErr)?;
            let kp = KeyPair::<Ke, XKey>::from_private_key(k).map_err(|e| classify(&e))?;
            Ok(Box::new(SetupSt::Ext(ServerSetup::<Cs, XKey>::new_with_key(rng, kp))))
        } else {
            let kp = KeyPair::<Ke>::from_private_key_slice(key).map_err(|_| Res::DecodeErr)?;
            Ok(Box::new(SetupSt::Direct(ServerSetup::<Cs>::new_with_key(rng, kp))))
        }
    }
    fn setup_deser(&self, bytes: &[u8], ext: bool) -> Result<St, Res> {
        if ext {
            // the key goes onto the device; opaque-ke is given seed || HANDLE || fake key
            let l = self.lens();
            if bytes.len() != l.nh + 2 * l.nsk {
                return Err(Res::DecodeErr);
            }
            if PrivateKey::<Ke>::deserialize(&bytes[l.nh..l.nh + l.nsk]).is_err() {
                return Err(Res::DecodeErr);
            }
            let mut with_handle = bytes[..l.nh].to_vec();
            with_handle.extend_from_slice(&crate::extkey::handle_for(&bytes[l.nh..l.nh + l.nsk]));
            with_handle.extend_from_slice(&bytes[l.nh + l.nsk..]);
            let bytes = &with_handle[..];
            match ServerSetup::<Cs, XKey>::deserialize(bytes) {
                Ok(s) => Ok(Box::new(SetupSt::Ext(s))),
                Err(ProtocolError::LibraryError(InternalError::Custom(c))) => Err(Res::Custom(c.0)),
                Err(_) => Err(Res::DecodeErr),
            }
        } else {
            ServerSetup::<Cs>::deserialize(bytes)
                .map(|s| Box::new(SetupSt::Direct(s)) as St)
                .map_err(|_| Res::DecodeErr)
        }
    }
    fn setup_ser(&self, st: &St) -> Vec<u8> {
        match dc::<SetupSt>(st) {
            SetupSt::Direct(s) => s.serialize().to_vec(),
            SetupSt::Ext(s) => {
                // logical view for the harness: the key behind the handle
                let l = self.lens();
                let raw = s.serialize().to_vec();
                let key = crate::extkey::key_behind(&raw[l.nh..l.nh + l.nsk]).expect("handle");
                let mut v = raw[..l.nh].to_vec();
                v.extend_from_slice(&key);
                v.extend_from_slice(&raw[l.nh + l.nsk..]);
                v
            }
        }
    }
    fn setup_spk(&self, st: &St) -> Vec<u8> {
        match dc::<SetupSt>(st) {
            SetupSt::Direct(s) => s.keypair().public().serialize().to_vec(),
            SetupSt::Ext(s) => s.keypair().public().serialize().to_vec(),
        }
    }

    // ----------------------------------------------------------- registration
    fn creg_start(&self, rng: &mut TapeRng, pw: &[u8]) -> Result<(Vec<u8>, St), Res> {
        let r = ClientRegistration::<Cs>::start(rng, pw).map_err(|e| classify(&e))?;
        Ok((r.message.serialize().to_vec(), Box::new(r.state)))
    }
    fn sreg_start(&self, setup: &St, req: &[u8], cid: &[u8]) -> Result<Vec<u8>, Res> {
        let m = RegistrationRequest::<Cs>::deserialize(req).map_err(|_| Res::DecodeErr)?;
        let r = match dc::<SetupSt>(setup) {
            SetupSt::Direct(s) => ServerRegistration::<Cs>::start(s, m, cid),
            SetupSt::Ext(s) => ServerRegistration::<Cs>::start(s, m, cid),
        }
        .map_err(|e| classify(&e))?;
        Ok(r.message.serialize().to_vec())
    }
    fn creg_finish(
        &self,
        st: &St,
        rng: &mut TapeRng,
        pw: &[u8],
        resp: &[u8],
        idu: Option<&[u8]>,
        idsv: Option<&[u8]>,
        ksf: KsfArg,
    ) -> Result<CRegFinishOut, Res> {
        let m = RegistrationResponse::<Cs>::deserialize(resp).map_err(|_| Res::DecodeErr)?;
        let k = ksf.map(|(i, f)| make_ksf(i, f));
        let params = ClientRegistrationFinishParameters::<Cs>::new(ids(idu, idsv), k.as_ref());
        let r = dc::<ClientRegistration<Cs>>(st)
            .clone()
            .finish(rng, pw, m, params)
            .map_err(|e| classify(&e))?;
        Ok(CRegFinishOut {
            upload: r.message.serialize().to_vec(),
            export_key: r.export_key.to_vec(),
            server_s_pk: r.server_s_pk.serialize().to_vec(),
        })
    }
    fn sreg_finish(&self, upload: &[u8]) -> Result<St, Res> {
        let m = RegistrationUpload::<Cs>::deserialize(upload).map_err(|_| Res::DecodeErr)?;
        Ok(Box::new(ServerRegistration::<Cs>::finish(m)))
    }

    // ------------------------------------------------------------------ login
    fn clog_start(&self, rng: &mut TapeRng, pw: &[u8]) -> Result<(Vec<u8>, St), Res> {
        let r = ClientLogin::<Cs>::start(rng, pw).map_err(|e| classify(&e))?;
        Ok((r.message.serialize().to_vec(), Box::new(r.state)))
    }
    fn slog_start(
        &self,
        rng: &mut TapeRng,
        setup: &St,
        file: Option<&[u8]>,
        req: &[u8],
        cid: &[u8],
        ctx: Option<&[u8]>,
        idu: Option<&[u8]>,
        idsv: Option<&[u8]>,
    ) -> Result<(Vec<u8>, St), Res> {
        let file = match file {
            Some(b) => Some(ServerRegistration::<Cs>::deserialize(b).map_err(|_| Res::DecodeErr)?),
            None => None,
        };
        let m = CredentialRequest::<Cs>::deserialize(req).map_err(|_| Res::DecodeErr)?;
        let params = ServerLoginStartParameters { context: ctx, identifiers: ids(idu, idsv) };
        match dc::<SetupSt>(setup) {
            SetupSt::Direct(s) => {
                let r = ServerLogin::<Cs>::start(rng, s, file, m, cid, params)
                    .map_err(|e| classify(&e))?;
                Ok((r.message.serialize().to_vec(), Box::new(r.state) as St))
            }
            SetupSt::Ext(s) => {
                let r = ServerLogin::<Cs>::start(rng, s, file, m, cid, params)
                    .map_err(|e| classify(&e))?;
                Ok((r.message.serialize().to_vec(), Box::new(r.state) as St))
            }
        }
    }
    fn clog_finish(
        &self,
        st: &St,
        pw: &[u8],
        resp: &[u8],
        ctx: Option<&[u8]>,
        idu: Option<&[u8]>,
        idsv: Option<&[u8]>,
        ksf: KsfArg,
    ) -> Result<CLogFinishOut, Res> {
        let m = CredentialResponse::<Cs>::deserialize(resp).map_err(|_| Res::DecodeErr)?;
        let k = ksf.map(|(i, f)| make_ksf(i, f));
        let params = ClientLoginFinishParameters::<Cs>::new(ctx, ids(idu, idsv), k.as_ref());
        let r = dc::<ClientLogin<Cs>>(st)
            .clone()
            .finish(pw, m, params)
            .map_err(|e| classify(&e))?;
        Ok(CLogFinishOut {
            fin: r.message.serialize().to_vec(),
            session_key: r.session_key.to_vec(),
            export_key: r.export_key.to_vec(),
            server_s_pk: r.server_s_pk.serialize().to_vec(),
        })
    }
    fn slog_finish(&self, st: &St, fin: &[u8]) -> Result<Vec<u8>, Res> {
        let m = CredentialFinalization::<Cs>::deserialize(fin).map_err(|_| Res::DecodeErr)?;
        let r = dc::<ServerLogin<Cs>>(st).clone().finish(m).map_err(|e| classify(&e))?;
        Ok(r.session_key.to_vec())
    }

    // ------------------------------------------------------------ persistence
    fn ser(&self, kind: Kind, st: &St) -> Vec<u8> {
        match kind {
            Kind::Setup => self.setup_ser(st),
            Kind::File => dc::<ServerRegistration<Cs>>(st).serialize().to_vec(),
            Kind::Reg => dc::<ClientRegistration<Cs>>(st).serialize().to_vec(),
            Kind::Cli => dc::<ClientLogin<Cs>>(st).serialize().to_vec(),
            Kind::Srv => dc::<ServerLogin<Cs>>(st).serialize().to_vec(),
        }
    }
    fn reload(&self, kind: Kind, st: &St, codec: Codec) -> Result<St, String> {
        fn via<T>(v: &T, codec: Codec) -> Result<T, String>
        where
            T: serde::Serialize + for<'de> serde::Deserialize<'de>,
        {
            match codec {
                Codec::Bincode => {
                    let b = bincode::serialize(v).map_err(|e| format!("bincode ser: {e}"))?;
                    bincode::deserialize(&b).map_err(|e| format!("bincode de: {e}"))
                }
                Codec::Json => {
                    let b = serde_json::to_vec(v).map_err(|e| format!("json ser: {e}"))?;
                    serde_json::from_slice(&b).map_err(|e| format!("json de: {e}"))
                }
                Codec::Native => unreachable!(),
            }
        }
        Ok(match (kind, codec) {
            (Kind::Setup, Codec::Native) => match dc::<SetupSt>(st) {
                SetupSt::Direct(s) => Box::new(SetupSt::Direct(
                    ServerSetup::<Cs>::deserialize(&s.serialize()).map_err(|e| format!("{e:?}"))?,
                )),
                SetupSt::Ext(s) => Box::new(SetupSt::Ext(
                    ServerSetup::<Cs, XKey>::deserialize(&s.serialize())
                        .map_err(|e| format!("{e:?}"))?,
                )),
            },
            (Kind::Setup, c) => match dc::<SetupSt>(st) {
                SetupSt::Direct(s) => Box::new(SetupSt::Direct(via(s, c)?)),
                SetupSt::Ext(s) => Box::new(SetupSt::Ext(via(s, c)?)),
            },
            (Kind::File, Codec::Native) => Box::new(
                ServerRegistration::<Cs>::deserialize(
                    &dc::<ServerRegistration<Cs>>(st).serialize(),
                )
                .map_err(|e| format!("{e:?}"))?,
            ),
            (Kind::File, c) => Box::new(via(dc::<ServerRegistration<Cs>>(st), c)?),
            (Kind::Reg, Codec::Native) => Box::new(
                ClientRegistration::<Cs>::deserialize(
                    &dc::<ClientRegistration<Cs>>(st).serialize(),
                )
                .map_err(|e| format!("{e:?}"))?,
            ),
            (Kind::Reg, c) => Box::new(via(dc::<ClientRegistration<Cs>>(st), c)?),
            (Kind::Cli, Codec::Native) => Box::new(
                ClientLogin::<Cs>::deserialize(&dc::<ClientLogin<Cs>>(st).serialize())
                    .map_err(|e| format!("{e:?}"))?,
            ),
            (Kind::Cli, c) => Box::new(via(dc::<ClientLogin<Cs>>(st), c)?),
            (Kind::Srv, Codec::Native) => Box::new(
                ServerLogin::<Cs>::deserialize(&dc::<ServerLogin<Cs>>(st).serialize())
                    .map_err(|e| format!("{e:?}"))?,
            ),
            (Kind::Srv, c) => Box::new(via(dc::<ServerLogin<Cs>>(st), c)?),
        })
    }

    // --------------------------------------------------------------- decoders
    fn decode(&self, decoder: &str, b: &[u8]) -> Result<Vec<u8>, String> {
        macro_rules! d {
            ($t:ty) => {
                <$t>::deserialize(b).map(|m| m.serialize().to_vec()).map_err(|e| format!("{:?}", e))
            };
        }
        match decoder {
            "RegistrationRequest" => d!(RegistrationRequest<Cs>),
            "RegistrationResponse" => d!(RegistrationResponse<Cs>),
            "RegistrationUpload" => d!(RegistrationUpload<Cs>),
            "CredentialRequest" => d!(CredentialRequest<Cs>),
            "CredentialResponse" => d!(CredentialResponse<Cs>),
            "CredentialFinalization" => d!(CredentialFinalization<Cs>),
            "ServerRegistration" => d!(ServerRegistration<Cs>),
            "ServerSetup" => d!(ServerSetup<Cs>),
            "ServerSetupExt" => ServerSetup::<Cs, XKey>::deserialize(b)
                .map(|m| m.serialize().to_vec())
                .map_err(|e| format!("{:?}", e)),
            "ClientRegistration" => d!(ClientRegistration<Cs>),
            "ClientLogin" => d!(ClientLogin<Cs>),
            "ServerLogin" => d!(ServerLogin<Cs>),
            "KePublicKey" => PublicKey::<Ke>::deserialize(b)
                .map(|m| m.serialize().to_vec())
                .map_err(|e| format!("{:?}", e)),
            "KePrivateKey" => <PrivateKey<Ke> as SecretKey<Ke>>::deserialize(b)
                .map(|m| SecretKey::<Ke>::serialize(&m).to_vec())
                .map_err(|e| format!("{:?}", e)),
            _ => Err(format!("unknown decoder {decoder}")),
        }
    }
    fn to_serde(&self, decoder: &str, native: &[u8], codec: Codec) -> Result<Vec<u8>, String> {
        macro_rules! t {
            ($t:ty) => {{
                let v = <$t>::deserialize(native).map_err(|e| format!("{:?}", e))?;
                match codec {
                    Codec::Bincode => bincode::serialize(&v).map_err(|e| e.to_string()),
                    Codec::Json => serde_json::to_vec(&v).map_err(|e| e.to_string()),
                    Codec::Native => Ok(native.to_vec()),
                }
            }};
        }
        match decoder {
            "RegistrationRequest" => t!(RegistrationRequest<Cs>),
            "RegistrationResponse" => t!(RegistrationResponse<Cs>),
            "RegistrationUpload" => t!(RegistrationUpload<Cs>),
            "CredentialRequest" => t!(CredentialRequest<Cs>),
            "CredentialResponse" => t!(CredentialResponse<Cs>),
            "CredentialFinalization" => t!(CredentialFinalization<Cs>),
            "ServerRegistration" => t!(ServerRegistration<Cs>),
            "ServerSetup" => t!(ServerSetup<Cs>),
            "ClientRegistration" => t!(ClientRegistration<Cs>),
            "ClientLogin" => t!(ClientLogin<Cs>),
            "ServerLogin" => t!(ServerLogin<Cs>),
            _ => Err(format!("unknown decoder {decoder}")),
        }
    }
    fn from_serde(&self, decoder: &str, enc: &[u8], codec: Codec) -> Result<Vec<u8>, String> {
        macro_rules! f {
            ($t:ty) => {{
                let v: $t = match codec {
                    Codec::Bincode => bincode::deserialize(enc).map_err(|e| e.to_string())?,
                    Codec::Json => serde_json::from_slice(enc).map_err(|e| e.to_string())?,
                    Codec::Native => <$t>::deserialize(enc).map_err(|e| format!("{:?}", e))?,
                };
                Ok(v.serialize().to_vec())
            }};
        }
        match decoder {
            "RegistrationRequest" => f!(RegistrationRequest<Cs>),
            "RegistrationResponse" => f!(RegistrationResponse<Cs>),
            "RegistrationUpload" => f!(RegistrationUpload<Cs>),
            "CredentialRequest" => f!(CredentialRequest<Cs>),
            "CredentialResponse" => f!(CredentialResponse<Cs>),
            "CredentialFinalization" => f!(CredentialFinalization<Cs>),
            "ServerRegistration" => f!(ServerRegistration<Cs>),
            "ServerSetup" => f!(ServerSetup<Cs>),
            "ClientRegistration" => f!(ClientRegistration<Cs>),
            "ClientLogin" => f!(ClientLogin<Cs>),
            "ServerLogin" => f!(ServerLogin<Cs>),
            _ => Err(format!("unknown decoder {decoder}")),
        }
    }

    // ------------------------------------------------------- key-pair API (C19)
    fn ke_derive(&self, seed: &[u8]) -> Result<Vec<u8>, String> {
        if seed.len() != <Ke as KeGroup>::SkLen::USIZE {
            return Err("seed length".into());
        }
        let sk = <Ke as KeGroup>::derive_auth_keypair::<Oprf>(
            generic_array::GenericArray::clone_from_slice(seed),
        )
        .map_err(|e| format!("{e:?}"))?;
        Ok(<Ke as KeGroup>::serialize_sk(sk).to_vec())
    }
    fn ke_public(&self, sk: &[u8]) -> Result<Vec<u8>, String> {
        let sk = <Ke as KeGroup>::deserialize_sk(sk).map_err(|e| format!("{e:?}"))?;
        Ok(<Ke as KeGroup>::serialize_pk(<Ke as KeGroup>::public_key(sk)).to_vec())
    }
    fn ke_dh(&self, sk: &[u8], pk: &[u8]) -> Result<Vec<u8>, String> {
        let sk = <Ke as KeGroup>::deserialize_sk(sk).map_err(|e| format!("sk {e:?}"))?;
        let pk = <Ke as KeGroup>::deserialize_pk(pk).map_err(|e| format!("pk {e:?}"))?;
        Ok(<Ke as KeGroup>::diffie_hellman(pk, sk).to_vec())
    }
    fn ke_random_sk(&self, rng: &mut TapeRng) -> Vec<u8> {
        <Ke as KeGroup>::serialize_sk(<Ke as KeGroup>::random_sk(rng)).to_vec()
    }
    fn ke_sk_roundtrip(&self, sk: &[u8], codec: Codec) -> Result<Vec<u8>, String> {
        let k = <PrivateKey<Ke> as SecretKey<Ke>>::deserialize(sk).map_err(|e| format!("{e:?}"))?;
        let k2: PrivateKey<Ke> = match codec {
            Codec::Native => k,
            Codec::Bincode => bincode::deserialize(&bincode::serialize(&k).map_err(|e| e.to_string())?)
                .map_err(|e| e.to_string())?,
            Codec::Json => serde_json::from_slice(&serde_json::to_vec(&k).map_err(|e| e.to_string())?)
                .map_err(|e| e.to_string())?,
        };
        Ok(SecretKey::<Ke>::serialize(&k2).to_vec())
    }
    fn ke_pk_roundtrip(&self, pk: &[u8], codec: Codec) -> Result<Vec<u8>, String> {
        let k = PublicKey::<Ke>::deserialize(pk).map_err(|e| format!("{e:?}"))?;
        let k2: PublicKey<Ke> = match codec {
            Codec::Native => k,
            Codec::Bincode => bincode::deserialize(&bincode::serialize(&k).map_err(|e| e.to_string())?)
                .map_err(|e| e.to_string())?,
            Codec::Json => serde_json::from_slice(&serde_json::to_vec(&k).map_err(|e| e.to_string())?)
                .map_err(|e| e.to_string())?,
        };
        Ok(k2.serialize().to_vec())
    }
    fn ke_keypair_from_slice(&self, sk: &[u8]) -> Result<(Vec<u8>, Vec<u8>), String> {
        let kp = KeyPair::<Ke>::from_private_key_slice(sk).map_err(|e| format!("{e:?}"))?;
        Ok((
            SecretKey::<Ke>::serialize(kp.private()).to_vec(),
            kp.public().serialize().to_vec(),
        ))
    }
}

//! C05 (injective binding) / C12 (length limits): run the parameter-triple pairs emitted by TLC
//! from spec/Encoding.tla, the length-boundary pairs and the crafted length-wrap family against
//! the real API.  Oracle: login succeeds iff the effective (context, client identity, server
//! identity) agree at registration / server start / client finish; a parameter longer than
//! 65535 bytes is refused by the step that encodes it.
use crate::rng::TapeRng;
use crate::suite::{Res, Suite};
use serde_json::{json, Value};

#[derive(Clone, Debug)]
pub struct Triple {
    pub ctx: Vec<u8>,
    pub idu: Vec<u8>,
    pub ids: Vec<u8>,
}

fn bytes(v: &Value) -> Vec<u8> {
    v.as_array().map(|a| a.iter().map(|x| x.as_u64().unwrap() as u8).collect()).unwrap_or_default()
}
pub fn triple(v: &Value) -> Triple {
    Triple { ctx: bytes(&v["ctx"]), idu: bytes(&v["idu"]), ids: bytes(&v["ids"]) }
}

/// register under `reg`, server start under `srv`, client finish under `cli`.
/// Returns Ok(true) login succeeded, Ok(false) client rejected, Err(step) a step refused its input.
pub fn flow(suite: &dyn Suite, seed: u64, n: i64, reg: &Triple, srv: &Triple, cli: &Triple) -> Result<bool, String> {
    let _running = crate::watch::enter();
    let r = std::panic::catch_unwind(std::panic::AssertUnwindSafe(|| -> Result<bool, String> {
        let pw = b"pw";
        let cid = b"cid";
        let setup = suite.setup_new(&mut TapeRng::new(seed, 1));
        let (rreq, rst) = suite.creg_start(&mut TapeRng::new(seed, n * 10 + 2), pw).map_err(|e| format!("creg_start {e:?}"))?;
        let rresp = suite.sreg_start(&setup, &rreq, cid).map_err(|e| format!("sreg_start {e:?}"))?;
        let fin = suite
            .creg_finish(&rst, &mut TapeRng::new(seed, n * 10 + 3), pw, &rresp, Some(&reg.idu), Some(&reg.ids), None)
            .map_err(|e| format!("refused:creg_finish {e:?}"))?;
        let (creq, cst) = suite.clog_start(&mut TapeRng::new(seed, n * 10 + 4), pw).map_err(|e| format!("clog_start {e:?}"))?;
        let (cresp, sst) = suite
            .slog_start(&mut TapeRng::new(seed, n * 10 + 5), &setup, Some(&fin.upload), &creq, cid, Some(&srv.ctx), Some(&srv.idu), Some(&srv.ids))
            .map_err(|e| format!("refused:slog_start {e:?}"))?;
        match suite.clog_finish(&cst, pw, &cresp, Some(&cli.ctx), Some(&cli.idu), Some(&cli.ids), None) {
            Ok(o) => {
                let sk = suite.slog_finish(&sst, &o.fin).map_err(|e| format!("server finish failed after client success {e:?}"))?;
                if sk != o.session_key {
                    return Err("session keys differ".into());
                }
                Ok(true)
            }
            Err(Res::Panic(m)) => Err(format!("panic {m}")),
            Err(Res::InvalidLogin) => Ok(false),
            Err(e) => Err(format!("refused:clog_finish {e:?}")),
        }
    }));
    r.unwrap_or_else(|_| Err("panic".into()))
}

pub struct EncOut {
    pub flows: usize,
    pub accepted: usize,
    pub rejected: usize,
    pub refused: usize,
    pub violations: Vec<Value>,
}

fn eq3(a: &Triple, b: &Triple) -> bool {
    a.ctx == b.ctx && a.idu == b.idu && a.ids == b.ids
}

pub fn run(suite: &dyn Suite, seed: u64, pairs: &[(String, Triple, Triple)], lengths: &[(usize, bool)]) -> EncOut {
    let mut o = EncOut { flows: 0, accepted: 0, rejected: 0, refused: 0, violations: vec![] };
    let mut n = 0i64;
    let mut check = |o: &mut EncOut, kind: &str, reg: &Triple, srv: &Triple, cli: &Triple| {
        n += 1;
        o.flows += 1;
        let long = |t: &Triple| t.ctx.len() > 65535 || t.idu.len() > 65535 || t.ids.len() > 65535;
        let want_refused = reg.idu.len() > 65535 || reg.ids.len() > 65535 || long(srv) || long(cli);
        let want_ok = !want_refused && reg.idu == srv.idu && reg.ids == srv.ids && eq3(srv, cli);
        let got = flow(suite, seed, n, reg, srv, cli);
        let bad = match (&got, want_refused, want_ok) {
            (Ok(true), false, true) => { o.accepted += 1; false }
            (Ok(false), false, false) => { o.rejected += 1; false }
            (Err(m), true, _) if m.starts_with("refused:") => { o.refused += 1; false }
            // a mismatch may also surface as a refusal-free rejection only; anything else is wrong
            _ => true,
        };
        if bad && o.violations.len() < 6 {
            let d = |t: &Triple| json!({"ctx": hexs(&t.ctx), "idu": hexs(&t.idu), "ids": hexs(&t.ids)});
            o.violations.push(json!({"suite": suite.name(), "kind": format!("binding-{kind}"),
                "detail": format!("registration {:?} / server start {:?} / client finish {:?}: outcome {:?}; specification: {}",
                    lens(reg), lens(srv), lens(cli), got,
                    if want_refused { "a parameter exceeds 65535 bytes: the step that encodes it must refuse" } else if want_ok { "all effective values agree: login succeeds" } else { "the triples differ: the client's final step fails" }),
                "reg": d(reg), "srv": d(srv), "cli": d(cli)}));
        }
    };
    for (kind, a, b) in pairs {
        // the transcript side: registration and server under A, client under B
        check(&mut o, kind, a, a, b);
        // the envelope side: registration under B, login (both sides) under A
        check(&mut o, kind, b, a, a);
        // sanity: equal triples log in
        if o.flows % 50 == 0 {
            check(&mut o, "sanity", a, a, a);
        }
    }
    // length boundaries: same fill byte, different lengths
    let fill = |n: usize| vec![b'x'; n];
    for (n1, e1) in lengths {
        for (n2, _e2) in lengths {
            if !e1 && n1 != n2 {
                continue; // one over-long member per pair is enough
            }
            let short = Triple { ctx: b"c".to_vec(), idu: b"u".to_vec(), ids: b"s".to_vec() };
            for pos in 0..3 {
                let mut a = short.clone();
                let mut b = short.clone();
                match pos {
                    0 => { a.ctx = fill(*n1); b.ctx = fill(*n2); }
                    1 => { a.idu = fill(*n1); b.idu = fill(*n2); }
                    _ => { a.ids = fill(*n1); b.ids = fill(*n2); }
                }
                check(&mut o, "length", &a, &a, &b);
                if pos > 0 {
                    check(&mut o, "length", &b, &a, &a);
                }
            }
        }
    }
    // crafted length-wrap family: if a length prefix were one byte wide (mod 256), these
    // different triples would encode identically (two adjacent fields X, Y):
    //   X = "x", Y = x^255 || 0x78 || Z      vs      X = x^257, Y = Z        with |Z| = 0x78
    let z = vec![b'y'; 0x78];
    let mut y_a = vec![b'x'; 255];
    y_a.push(0x78);
    y_a.extend_from_slice(&z);
    let base = Triple { ctx: b"c".to_vec(), idu: b"u".to_vec(), ids: b"s".to_vec() };
    // (context, client identity) are adjacent in the transcript
    let a = Triple { ctx: b"x".to_vec(), idu: y_a.clone(), ..base.clone() };
    let b = Triple { ctx: vec![b'x'; 257], idu: z.clone(), ..base.clone() };
    check(&mut o, "wrap256", &a, &a, &b);
    check(&mut o, "wrap256", &b, &b, &a);
    // (server identity, client identity) are adjacent in the envelope's authenticated data
    let a = Triple { ids: b"x".to_vec(), idu: y_a.clone(), ..base.clone() };
    let b = Triple { ids: vec![b'x'; 257], idu: z.clone(), ..base.clone() };
    check(&mut o, "wrap256", &b, &a, &a);
    check(&mut o, "wrap256", &a, &b, &b);
    check(&mut o, "wrap256", &a, &a, &b);
    // general form for a prefix of w bytes whose value is taken mod 256 (00.. || len mod 256):
    //   (X, F || P(|Z|) || Z)   vs   (X || P(|Z|) || F, Z)     with |F| = 256 - w
    for w in [1usize, 2] {
        for (x, z) in [(b"ctx".to_vec(), b"xyz".to_vec()), (vec![], b"q".to_vec()), (b"a".to_vec(), vec![7u8; 40])] {
            let f = vec![b'F'; 256 - w];
            let mut p = vec![0u8; w];
            p[w - 1] = z.len() as u8;
            let mut y_a = f.clone();
            y_a.extend_from_slice(&p);
            y_a.extend_from_slice(&z);
            let mut x_b = x.clone();
            x_b.extend_from_slice(&p);
            x_b.extend_from_slice(&f);
            // (context, client identity) in the transcript
            let a = Triple { ctx: x.clone(), idu: y_a.clone(), ..base.clone() };
            let b = Triple { ctx: x_b.clone(), idu: z.clone(), ..base.clone() };
            check(&mut o, "wrap256", &a, &a, &b);
            check(&mut o, "wrap256", &b, &b, &a);
            // (server identity, client identity) in the envelope
            let a = Triple { ids: x.clone(), idu: y_a.clone(), ..base.clone() };
            let b = Triple { ids: x_b.clone(), idu: z.clone(), ..base.clone() };
            check(&mut o, "wrap256", &a, &b, &b);
            check(&mut o, "wrap256", &b, &a, &a);
        }
    }
    o
}

fn hexs(b: &[u8]) -> String {
    if b.len() > 40 { format!("{}..({}B)", hex::encode(&b[..16]), b.len()) } else { hex::encode(b) }
}
fn lens(t: &Triple) -> (usize, usize, usize) {
    (t.ctx.len(), t.idu.len(), t.ids.len())
}

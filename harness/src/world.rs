//! The executor: one specification action = one call of the real opaque-ke API.
//!
//! Events are the NDJSON alphabet shared with the TLA+ specification (DESIGN.md 4.9,
//! spec/Opaque.tla `Observe`).  `World::step` executes one event for one cipher suite and
//! returns what was observed: the result class and the output byte strings in the slot order
//! the specification uses.  Value ids are assigned by first occurrence (`Intern`), exactly as
//! the specification numbers terms, so "same numbering" <=> "byte equality coincides with
//! term equality".
use crate::conc::Profile;
use crate::extkey;
use crate::refgroup::{self, RefKe, RefOprf};
use crate::rng::TapeRng;
use crate::suite::*;
use crate::tksf;
use serde_json::{json, Value};
use std::collections::HashMap;
use std::panic::{catch_unwind, AssertUnwindSafe};

#[derive(Default)]
pub struct Intern {
    pub map: HashMap<Vec<u8>, usize>,
    pub vals: Vec<Vec<u8>>,
}
impl Intern {
    pub fn id(&mut self, b: &[u8]) -> usize {
        if let Some(i) = self.map.get(b) {
            return *i;
        }
        self.vals.push(b.to_vec());
        self.map.insert(b.to_vec(), self.vals.len());
        self.vals.len()
    }
    pub fn get(&self, i: usize) -> Option<&Vec<u8>> {
        if i == 0 {
            None
        } else {
            self.vals.get(i - 1)
        }
    }
    /// same-tapes experiment: values are filed under the SPECIFICATION's ids (no de-duplication)
    pub fn set(&mut self, id: usize, b: &[u8]) {
        while self.vals.len() < id {
            self.vals.push(Vec::new());
        }
        self.vals[id - 1] = b.to_vec();
    }
    pub fn lookup(&self, b: &[u8]) -> Option<usize> {
        self.map.get(b).copied()
    }
}

#[derive(Debug, Clone)]
pub struct Obs {
    pub res: Res,
    pub out: Vec<Vec<u8>>,
    pub ksf_log: Vec<(u32, Vec<u8>)>,
    pub ext: extkey::ExtStats,
    pub rng_bytes: usize,
    pub draws: Vec<(usize, usize)>,
    /// problems that are violations independent of the expected projection (layout, reload)
    pub problems: Vec<String>,
}

impl Obs {
    fn new(res: Res) -> Obs {
        Obs {
            res,
            out: vec![],
            ksf_log: vec![],
            ext: Default::default(),
            rng_bytes: 0,
            draws: vec![],
            problems: vec![],
        }
    }
}

pub struct World<'a> {
    pub suite: &'a dyn Suite,
    pub lens: Lens,
    pub run_seed: u64,
    pub profile: Profile,
    pub setups: HashMap<i64, St>,
    pub regs: HashMap<i64, St>,
    pub files: HashMap<i64, St>,
    pub clis: HashMap<i64, St>,
    pub srvs: HashMap<i64, St>,
    pub intern: Intern,
    pub refke: Box<dyn RefKe>,
    pub refoprf: Box<dyn RefOprf>,
    pub gcount: u64,
    /// tape substitution for C17 experiments: tape id -> (other tape, split position)
    pub tape_split: HashMap<i64, (i64, usize)>,
    /// tape id -> (other tape, offset, len): only that draw is replaced
    pub tape_patch: HashMap<i64, (i64, usize, usize)>,
    /// external-key fault position used when an event says extfail (1-based call index)
    pub ext_fail_at: u32,
    pub atoms_used: HashMap<i64, Vec<u8>>,
    /// "arbitrary call orders with shared RNGs": all calls draw from ONE generator, one after
    /// the other, instead of one tape per call
    pub shared_rng: Option<TapeRng>,
    pub shared_rng_mode: bool,
    /// every call is given a generator that starts at the SAME position of the SAME tape
    pub same_tapes: bool,
    /// C17: structured tapes (bits forced on a prefix)
    pub tape_force: Option<(usize, u8)>,
    /// messages travel through serde (decode native -> serde encode -> serde decode -> native)
    pub msg_codec: Option<Codec>,
    pub transport_problems: Vec<String>,
}

fn geti(e: &Value, k: &str) -> i64 {
    e.get(k).and_then(|v| v.as_i64()).unwrap_or(0)
}
fn getb(e: &Value, k: &str) -> bool {
    e.get(k).and_then(|v| v.as_bool()).unwrap_or(false)
}
fn gets<'v>(e: &'v Value, k: &str) -> &'v str {
    e.get(k).and_then(|v| v.as_str()).unwrap_or("")
}
fn getv(e: &Value, k: &str) -> Vec<i64> {
    e.get(k)
        .and_then(|v| v.as_array())
        .map(|a| a.iter().map(|x| x.as_i64().unwrap_or(0)).collect())
        .unwrap_or_default()
}

fn guard<T>(f: impl FnOnce() -> Result<T, Res>) -> Result<T, Res> {
    match catch_unwind(AssertUnwindSafe(f)) {
        Ok(r) => r,
        Err(p) => {
            let msg = if let Some(s) = p.downcast_ref::<&str>() {
                s.to_string()
            } else if let Some(s) = p.downcast_ref::<String>() {
                s.clone()
            } else {
                "panic".to_string()
            };
            Err(Res::Panic(msg))
        }
    }
}

impl<'a> World<'a> {
    pub fn new(suite: &'a dyn Suite, run_seed: u64, profile: Profile) -> World<'a> {
        World {
            suite,
            lens: suite.lens(),
            run_seed,
            profile,
            setups: HashMap::new(),
            regs: HashMap::new(),
            files: HashMap::new(),
            clis: HashMap::new(),
            srvs: HashMap::new(),
            intern: Intern::default(),
            refke: refgroup::ke_by_name(suite.ke()),
            refoprf: refgroup::oprf_by_name(suite.oprf()),
            gcount: 0,
            tape_split: HashMap::new(),
            tape_patch: HashMap::new(),
            ext_fail_at: 1,
            atoms_used: HashMap::new(),
            shared_rng: None,
            shared_rng_mode: false,
            same_tapes: false,
            tape_force: None,
            msg_codec: None,
            transport_problems: Vec::new(),
        }
    }

    pub fn use_shared_rng(&mut self) {
        self.shared_rng = Some(TapeRng::new(self.run_seed, 777_777));
        self.shared_rng_mode = true;
    }

    fn transport(&mut self, decoder: &str, bytes: Vec<u8>) -> Vec<u8> {
        let Some(c) = self.msg_codec else { return bytes };
        let suite = self.suite;
        let r = catch_unwind(AssertUnwindSafe(|| match suite.to_serde(decoder, &bytes, c) {
            Ok(enc) => Some(suite.from_serde(decoder, &enc, c)),
            Err(_) => None, // not a valid message: the native decoder will refuse it
        }));
        match r {
            Ok(None) => bytes,
            Ok(Some(Ok(b2))) => {
                if b2 != bytes {
                    self.transport_problems.push(format!("{decoder}: transport through serde {:?} altered the message", c));
                }
                b2
            }
            Ok(Some(Err(e))) => {
                self.transport_problems.push(format!("{decoder}: serde {:?} cannot decode its own encoding of a valid message: {e}", c));
                bytes
            }
            Err(_) => {
                self.transport_problems.push(format!("{decoder}: panic in serde transport"));
                bytes
            }
        }
    }

    pub fn reset(&mut self) {
        self.setups.clear();
        self.regs.clear();
        self.files.clear();
        self.clis.clear();
        self.srvs.clear();
        self.intern = Intern::default();
        self.gcount = 0;
        self.atoms_used.clear();
    }

    fn rng(&mut self, tape: i64) -> TapeRng {
        if let Some(f) = self.tape_force {
            let mut t = TapeRng::new(self.run_seed, tape);
            t.force = Some(f);
            return t;
        }
        if self.same_tapes {
            return TapeRng::new(self.run_seed, 424_242);
        }
        if let Some(mut sh) = self.shared_rng.take() {
            sh.draws.clear();
            return sh;
        }
        if let Some((other, off, len)) = self.tape_patch.get(&tape) {
            return TapeRng::patched(self.run_seed, tape, *other, *off, *len);
        }
        match self.tape_split.get(&tape) {
            Some((other, n)) => TapeRng::split(self.run_seed, tape, *other, *n),
            None => TapeRng::new(self.run_seed, tape),
        }
    }

    /// 0 absent, -(n+1) pool atom n, i > 0 value id
    pub fn arg(&mut self, n: i64) -> Option<Vec<u8>> {
        if n == 0 {
            None
        } else if n < 0 {
            let a = -n - 1;
            let b = self.profile.atom(a);
            self.atoms_used.insert(a, b.clone());
            Some(b)
        } else {
            Some(self.intern.get(n as usize).expect("value id").clone())
        }
    }
    fn req_arg(&mut self, n: i64) -> Vec<u8> {
        self.arg(n).unwrap_or_default()
    }
    fn cat(&mut self, ids: &[i64]) -> Vec<u8> {
        let mut v = Vec::new();
        for i in ids {
            v.extend_from_slice(&self.req_arg(*i));
        }
        v
    }

    /// true if two different atoms used so far have equal bytes (the concretization is not
    /// injective for this behaviour: the run must be discarded, not judged)
    pub fn atoms_collide(&self) -> bool {
        let v: Vec<_> = self.atoms_used.iter().collect();
        for i in 0..v.len() {
            for j in i + 1..v.len() {
                if v[i].1 == v[j].1 {
                    return true;
                }
            }
        }
        false
    }

    fn cut(&self, b: &[u8], lens: &[usize], what: &str, o: &mut Obs) -> Vec<Vec<u8>> {
        let total: usize = lens.iter().sum();
        if b.len() != total {
            o.problems.push(format!("layout: {what} has {} bytes, wire format says {}", b.len(), total));
            return lens.iter().map(|_| vec![]).collect();
        }
        let mut out = vec![];
        let mut p = 0;
        for l in lens {
            out.push(b[p..p + l].to_vec());
            p += l;
        }
        out
    }

    fn setup_outs(&self, st: &St, o: &mut Obs) {
        let l = self.lens;
        let b = self.suite.setup_ser(st);
        let mut parts = self.cut(&b, &[l.nh, l.nsk, l.nsk], "ServerSetup", o);
        parts.push(self.suite.setup_spk(st));
        o.out = parts;
    }

    fn ksf_arg(e: &Value) -> KsfArg {
        let k = geti(e, "ksf");
        let fail = getb(e, "ksffail");
        // 0 = not passed, 1 = default instance passed explicitly, k>=2 = instance k-1
        if fail {
            Some((if k <= 1 { 0 } else { (k - 1) as u32 }, true))
        } else if k == 0 {
            None
        } else {
            Some(((k - 1) as u32, false))
        }
    }

    pub fn fresh_value(&mut self, field: &str, cls: &str) -> Vec<u8> {
        self.gcount += 1;
        // unique per world; the sub-class of a class (which invalid encoding, which kind of valid key) rotates
        // with the counter, the run seed and the pool profile
        let n = self.gcount + (((self.run_seed << 8) + (self.profile.seed & 0xff)) << 16);
        let l = self.lens;
        let okind = matches!(field, "blinded" | "eval");
        let kkind = matches!(field, "cepk" | "sepk" | "cpk" | "spk");
        let skind = matches!(field, "ssk" | "fsk");
        if cls == "valid" {
            if okind {
                return refgroup::fresh_oelem(self.refoprf.as_ref(), n);
            }
            if kkind {
                return refgroup::fresh_kpk(self.refke.as_ref(), n);
            }
            if skind {
                let pk_seed = crate::conc::Profile { pw: 0, cid: 0, ctx: 0, id: 0, seed: n };
                let _ = pk_seed;
                let mut seed = vec![0u8; l.nsk];
                let h = crate::refgroup::HashKind::Sha512.hash(&[b"fresh sk", &n.to_be_bytes()]);
                let m = seed.len().min(32);
                seed[..m].copy_from_slice(&h[..m]);
                return self.refke.derive(self.refoprf.id(), self.refoprf.hash(), &seed);
            }
            let len = match field {
                "cnonce" | "mn" | "snonce" | "envn" => l.nn,
                "masked" => l.npk + l.nn + l.nh,
                "mac" | "fin" | "mk" | "envm" | "seed" => l.nh,
                _ => 32,
            };
            let mut v = Vec::new();
            let mut c = 0u8;
            while v.len() < len {
                v.extend_from_slice(&crate::refgroup::HashKind::Sha512.hash(&[b"fresh bytes", &n.to_be_bytes(), &[c]]));
                c += 1;
            }
            v.truncate(len);
            v
        } else {
            // an encoding that the reference predicates reject; rotate over the invalid classes
            let len = if okind { l.noe } else if kkind { l.npk } else { l.nsk };
            let cands = crate::wire::invalid_encodings(
                if okind { self.suite.oprf() } else { self.suite.ke() },
                if skind { "scalar" } else { "elem" },
                len,
            );
            cands[(n as usize) % cands.len()].1.clone()
        }
    }

    pub fn step(&mut self, e: &Value) -> Obs {
        crate::watch::context(format!("{} step {}", self.suite.name(), e));
        let _running = crate::watch::enter();
        tksf::take_log();
        let extfail = getb(e, "extfail");
        extkey::reset(if extfail { self.ext_fail_at } else { 0 });
        let mut o = self.step_inner(e);
        o.problems.extend(self.transport_problems.drain(..));
        o.ksf_log = tksf::take_log();
        o.ext = extkey::stats();
        o
    }

    fn step_inner(&mut self, e: &Value) -> Obs {
        let ev = gets(e, "ev").to_string();
        let id = geti(e, "id");
        let l = self.lens;
        let suite = self.suite;
        let mut o = Obs::new(Res::Ok);
        match ev.as_str() {
            "Reset" => {
                self.reset();
            }
            "SetupNew" => {
                let mut rng = self.rng(geti(e, "tape"));
                match guard(|| Ok(suite.setup_new(&mut rng))) {
                    Ok(st) => {
                        self.setup_outs(&st, &mut o);
                        self.setups.insert(id, st);
                    }
                    Err(r) => o.res = r,
                }
                o.rng_bytes = rng.pos;
                o.draws = rng.draws.clone();
                if self.shared_rng_mode {
                    self.shared_rng = Some(rng);
                }
            }
            "SetupWithKey" => {
                let mut rng = self.rng(geti(e, "tape"));
                let key = self.req_arg(geti(e, "key"));
                let ext = gets(e, "mode") == "ext";
                match guard(|| suite.setup_with_key(&mut rng, &key, ext)) {
                    Ok(st) => {
                        self.setup_outs(&st, &mut o);
                        self.setups.insert(id, st);
                    }
                    Err(r) => o.res = r,
                }
                o.rng_bytes = rng.pos;
                o.draws = rng.draws.clone();
                if self.shared_rng_mode {
                    self.shared_rng = Some(rng);
                }
            }
            "SetupFromParts" => {
                let bytes = self.cat(&getv(e, "parts"));
                let ext = gets(e, "mode") == "ext";
                match guard(|| suite.setup_deser(&bytes, ext)) {
                    Ok(st) => {
                        self.setup_outs(&st, &mut o);
                        self.setups.insert(id, st);
                    }
                    Err(r) => o.res = r,
                }
            }
            "CRegStart" => {
                let mut rng = self.rng(geti(e, "tape"));
                let pw = self.req_arg(geti(e, "pw"));
                match guard(|| suite.creg_start(&mut rng, &pw)) {
                    Ok((msg, st)) => {
                        let stb = suite.ser(Kind::Reg, &st);
                        let m = self.cut(&msg, &[l.noe], "RegistrationRequest", &mut o);
                        let s = self.cut(&stb, &[l.nok, l.noe], "ClientRegistration", &mut o);
                        if s[1] != m[0] {
                            o.problems.push("ClientRegistration state does not contain the request".into());
                        }
                        o.out = vec![m[0].clone(), s[0].clone()];
                        self.regs.insert(id, st);
                    }
                    Err(r) => o.res = r,
                }
                o.rng_bytes = rng.pos;
                o.draws = rng.draws.clone();
                if self.shared_rng_mode {
                    self.shared_rng = Some(rng);
                }
            }
            "SRegStart" => {
                let req = self.req_arg(geti(e, "req"));
                let req = self.transport("RegistrationRequest", req);
                let cid = self.req_arg(geti(e, "cid"));
                let st = self.setups.get(&id).expect("setup");
                match guard(|| suite.sreg_start(st, &req, &cid)) {
                    Ok(msg) => {
                        o.out = self.cut(&msg, &[l.noe, l.npk], "RegistrationResponse", &mut o);
                    }
                    Err(r) => o.res = r,
                }
            }
            "CRegFinish" => {
                let mut rng = self.rng(geti(e, "tape"));
                let pw = self.req_arg(geti(e, "pw"));
                let msg = self.cat(&getv(e, "msg"));
                let msg = self.transport("RegistrationResponse", msg);
                let idu = self.arg(geti(e, "idu"));
                let ids = self.arg(geti(e, "ids"));
                let ksf = Self::ksf_arg(e);
                let st = self.regs.get(&id).expect("reg state");
                match guard(|| suite.creg_finish(st, &mut rng, &pw, &msg, idu.as_deref(), ids.as_deref(), ksf)) {
                    Ok(r) => {
                        let mut parts = self.cut(&r.upload, &[l.npk, l.nh, l.nn, l.nh], "RegistrationUpload", &mut o);
                        parts.push(r.export_key);
                        parts.push(r.server_s_pk);
                        o.out = parts;
                    }
                    Err(r) => o.res = r,
                }
                o.rng_bytes = rng.pos;
                o.draws = rng.draws.clone();
                if self.shared_rng_mode {
                    self.shared_rng = Some(rng);
                }
            }
            "SRegFinish" => {
                let msg = self.cat(&getv(e, "msg"));
                let msg = self.transport("RegistrationUpload", msg);
                match guard(|| suite.sreg_finish(&msg)) {
                    Ok(st) => {
                        let b = suite.ser(Kind::File, &st);
                        if b != msg {
                            o.problems.push("ServerRegistration does not serialize to the upload it was built from".into());
                        }
                        self.files.insert(id, st);
                    }
                    Err(r) => o.res = r,
                }
            }
            "CLogStart" => {
                let mut rng = self.rng(geti(e, "tape"));
                let pw = self.req_arg(geti(e, "pw"));
                match guard(|| suite.clog_start(&mut rng, &pw)) {
                    Ok((msg, st)) => {
                        let stb = suite.ser(Kind::Cli, &st);
                        let m = self.cut(&msg, &[l.noe, l.nn, l.npk], "CredentialRequest", &mut o);
                        let s = self.cut(&stb, &[l.nok, l.noe, l.nn, l.npk, l.nsk, l.nn], "ClientLogin", &mut o);
                        if s[1..4] != m[..] || s[5] != m[1] {
                            o.problems.push("ClientLogin state does not contain the request / nonce".into());
                        }
                        o.out = vec![m[0].clone(), m[1].clone(), m[2].clone(), s[0].clone(), s[4].clone()];
                        self.clis.insert(id, st);
                    }
                    Err(r) => o.res = r,
                }
                o.rng_bytes = rng.pos;
                o.draws = rng.draws.clone();
                if self.shared_rng_mode {
                    self.shared_rng = Some(rng);
                }
            }
            "SLogStart" => {
                let mut rng = self.rng(geti(e, "tape"));
                let recv = getv(e, "rec");
                let file = if recv.is_empty() { None } else { Some(self.cat(&recv)) };
                let msg = self.cat(&getv(e, "msg"));
                let msg = self.transport("CredentialRequest", msg);
                let cid = self.req_arg(geti(e, "cid"));
                let ctx = self.arg(geti(e, "ctx"));
                let idu = self.arg(geti(e, "idu"));
                let ids = self.arg(geti(e, "ids"));
                let st = self.setups.get(&geti(e, "s")).expect("setup");
                match guard(|| {
                    suite.slog_start(&mut rng, st, file.as_deref(), &msg, &cid, ctx.as_deref(), idu.as_deref(), ids.as_deref())
                }) {
                    Ok((resp, sst)) => {
                        let stb = suite.ser(Kind::Srv, &sst);
                        let mut parts = self.cut(
                            &resp,
                            &[l.noe, l.nn, l.npk + l.nn + l.nh, l.nn, l.npk, l.nh],
                            "CredentialResponse",
                            &mut o,
                        );
                        parts.extend(self.cut(&stb, &[l.nh, l.nh, l.nh], "ServerLogin", &mut o));
                        o.out = parts;
                        self.srvs.insert(id, sst);
                    }
                    Err(r) => o.res = r,
                }
                o.rng_bytes = rng.pos;
                o.draws = rng.draws.clone();
                if self.shared_rng_mode {
                    self.shared_rng = Some(rng);
                }
            }
            "CLogFinish" => {
                let pw = self.req_arg(geti(e, "pw"));
                let msg = self.cat(&getv(e, "msg"));
                let msg = self.transport("CredentialResponse", msg);
                let ctx = self.arg(geti(e, "ctx"));
                let idu = self.arg(geti(e, "idu"));
                let ids = self.arg(geti(e, "ids"));
                let ksf = Self::ksf_arg(e);
                let st = self.clis.get(&id).expect("client login state");
                match guard(|| suite.clog_finish(st, &pw, &msg, ctx.as_deref(), idu.as_deref(), ids.as_deref(), ksf)) {
                    Ok(r) => {
                        if r.fin.len() != l.nh || r.session_key.len() != l.nh || r.export_key.len() != l.nh {
                            o.problems.push("layout: finalization / key length".into());
                        }
                        o.out = vec![r.fin, r.session_key, r.export_key, r.server_s_pk];
                    }
                    Err(r) => o.res = r,
                }
            }
            "SLogFinish" => {
                let msg = self.cat(&getv(e, "msg"));
                let msg = self.transport("CredentialFinalization", msg);
                let st = self.srvs.get(&id).expect("server login state");
                match guard(|| suite.slog_finish(st, &msg)) {
                    Ok(sk) => o.out = vec![sk],
                    Err(r) => o.res = r,
                }
            }
            "Reload" => {
                let kind = match gets(e, "kind") {
                    "setup" => Kind::Setup,
                    "file" => Kind::File,
                    "reg" => Kind::Reg,
                    "cli" => Kind::Cli,
                    "srv" => Kind::Srv,
                    k => panic!("kind {k}"),
                };
                let codec = Codec::parse(gets(e, "codec"));
                let map = match kind {
                    Kind::Setup => &mut self.setups,
                    Kind::File => &mut self.files,
                    Kind::Reg => &mut self.regs,
                    Kind::Cli => &mut self.clis,
                    Kind::Srv => &mut self.srvs,
                };
                let st = map.get(&id).expect("state to reload");
                let before = suite.ser(kind, st);
                match catch_unwind(AssertUnwindSafe(|| suite.reload(kind, st, codec))) {
                    Ok(Ok(st2)) => {
                        let after = suite.ser(kind, &st2);
                        if after != before {
                            o.problems.push(format!("reload({:?},{:?}) changed the state's encoding", kind, codec));
                        }
                        map.insert(id, st2);
                    }
                    Ok(Err(msg)) => {
                        o.problems.push(format!("reload({:?},{:?}) failed: {}", kind, codec, msg));
                    }
                    Err(_) => o.res = Res::Panic("reload".into()),
                }
            }
            "Mut" => {
                let v = match e.get("bytes").and_then(|b| b.as_str()) {
                    Some(h) => hex::decode(h).expect("hex"),
                    None => self.fresh_value(gets(e, "field"), gets(e, "cls")),
                };
                o.out = vec![v];
            }
            other => panic!("unknown event {other}"),
        }
        o
    }

    /// Run a client finish step with the arguments of event `e` but these message bytes
    /// (class concretization sweeps); nothing is interned, no state changes.
    pub fn try_client_finish(&mut self, e: &Value, msg: &[u8]) -> Res {
        let _running = crate::watch::enter();
        let pw = self.req_arg(geti(e, "pw"));
        let ctx = self.arg(geti(e, "ctx"));
        let idu = self.arg(geti(e, "idu"));
        let ids = self.arg(geti(e, "ids"));
        let ksf = Self::ksf_arg(e);
        let suite = self.suite;
        let st = self.clis.get(&geti(e, "id")).expect("client login state");
        match guard(|| suite.clog_finish(st, &pw, msg, ctx.as_deref(), idu.as_deref(), ids.as_deref(), ksf)) {
            Ok(_) => Res::Ok,
            Err(r) => r,
        }
    }
    pub fn try_server_finish(&mut self, j: i64, fin: &[u8]) -> Res {
        let _running = crate::watch::enter();
        let suite = self.suite;
        let st = self.srvs.get(&j).expect("server login state");
        match guard(|| suite.slog_finish(st, fin)) {
            Ok(_) => Res::Ok,
            Err(r) => r,
        }
    }

    /// Execute and produce the event as the harness observed it (direction B / recording):
    /// `e` carries the arguments; res / out are filled in.
    pub fn record(&mut self, mut e: Value) -> (Value, Obs) {
        let o = self.step(&e);
        let ids: Vec<usize> = o.out.iter().map(|b| self.intern.id(b)).collect();
        let m = e.as_object_mut().unwrap();
        m.insert("res".into(), json!(o.res.class()));
        m.insert("out".into(), json!(ids));
        (e, o)
    }
}

//! Term evaluator (C09, C19): interprets the primitive constructors of spec/Terms.tla with
//! reference primitives (refgroup.rs: sha2 / hmac / HKDF written out / curve crates) -- no
//! opaque-ke code.  The formulas themselves live only in the TLA+ specification; what arrives
//! here is the full term of every value the implementation output (emitted by TLC), and the
//! evaluator says what bytes RFC 9807 / RFC 9497 prescribe for it.
//!
//! Random leaves are bound from witnesses, never from draw positions: a leaf that is itself an
//! output (blind, nonces, seed) is taken as observed; a leaf that is not (ephemeral / static key
//! seeds, the fake-record masking key) is searched among the recorded draws of its tape for the
//! draw that explains the observed value.
use crate::conc::Profile;
use crate::refgroup::{HashKind, RefKe, RefOprf};
use crate::suite::Lens;
use serde_json::Value;
use std::collections::HashMap;

#[derive(Debug)]
pub enum EvalErr {
    NeedRnd(i64, String),
    Bad(String),
}

pub struct Evaluator<'a> {
    pub profile: &'a Profile,
    pub lens: Lens,
    pub oprf: &'a dyn RefOprf,
    pub ke: &'a dyn RefKe,
    pub hash: HashKind,
    pub ksf_kind: &'a str,
    /// observed bytes of output terms, keyed by the term's JSON text
    pub observed: HashMap<String, Vec<u8>>,
    /// random leaves bound so far
    pub rnd: HashMap<(i64, String), Vec<u8>>,
    pub memo: HashMap<String, Vec<u8>>,
    pub evaluations: usize,
}

fn tag(t: &Value) -> &str {
    t.get(0).and_then(|x| x.as_str()).unwrap_or("")
}

impl<'a> Evaluator<'a> {
    fn len_of(&self, name: &Value) -> Result<usize, EvalErr> {
        if let Some(n) = name.as_u64() {
            return Ok(n as usize);
        }
        let l = &self.lens;
        Ok(match name.as_str().unwrap_or("") {
            "Nh" => l.nh,
            "Nok" => l.nok,
            "Noe" => l.noe,
            "Npk" => l.npk,
            "Nsk" | "Nseed" => l.nsk,
            "Nn" => l.nn,
            "Npad" => l.npk + l.nn + l.nh,
            other => return Err(EvalErr::Bad(format!("unknown symbolic length {other}"))),
        })
    }

    /// Evaluate `t`.  `root` = true: do not take the observation of this very term (that is
    /// what is being checked); strict sub-terms that were outputs are taken as observed.
    pub fn eval(&mut self, t: &Value, root: bool) -> Result<Vec<u8>, EvalErr> {
        let key = t.to_string();
        if !root {
            if let Some(b) = self.observed.get(&key) {
                return Ok(b.clone());
            }
            if let Some(b) = self.memo.get(&key) {
                return Ok(b.clone());
            }
        }
        self.evaluations += 1;
        let r = self.eval_inner(t)?;
        if !root {
            self.memo.insert(key, r.clone());
        }
        Ok(r)
    }

    fn eval_inner(&mut self, t: &Value) -> Result<Vec<u8>, EvalErr> {
        let h = self.hash;
        Ok(match tag(t) {
            "atom" => self.profile.atom(t[1].as_i64().unwrap()),
            "lit" => t[1].as_str().unwrap().as_bytes().to_vec(),
            "zero" => vec![0u8; self.len_of(&t[1])?],
            "ones" => vec![0xffu8; self.len_of(&t[1])?],
            "skc" => {
                let ex = self.ke.extreme_sks();
                match t[1].as_str().unwrap() {
                    "one" | "clampmin" => ex[0].clone(),
                    _ => ex[1].clone(),
                }
            }
            "krand" | "kimp" => {
                let tape = t[1].as_i64().unwrap();
                let role = t[0].as_str().unwrap().to_string();
                match self.rnd.get(&(tape, role.clone())) {
                    Some(b) => b.clone(),
                    None => return Err(EvalErr::NeedRnd(tape, role)),
                }
            }
            "i2" => {
                let n = self.len_of(&t[1])?;
                let k = t[2].as_u64().unwrap() as usize;
                i2osp(n, k)?
            }
            "rnd" => {
                let tape = t[1].as_i64().unwrap();
                let role = t[2].as_str().unwrap().to_string();
                match self.rnd.get(&(tape, role.clone())) {
                    Some(b) => b.clone(),
                    None => return Err(EvalErr::NeedRnd(tape, role)),
                }
            }
            "cat" => {
                let mut v = Vec::new();
                for x in t[1].as_array().unwrap() {
                    v.extend_from_slice(&self.eval(x, false)?);
                }
                v
            }
            "lp" => {
                let k = t[1].as_u64().unwrap() as usize;
                let b = self.eval(&t[2], false)?;
                let mut v = i2osp(b.len(), k)?;
                v.extend_from_slice(&b);
                v
            }
            "hash" => {
                let b = self.eval(&t[1], false)?;
                h.hash(&[&b])
            }
            "hmac" => {
                let k = self.eval(&t[1], false)?;
                let m = self.eval(&t[2], false)?;
                h.hmac(&k, &[&m])
            }
            "extract" => {
                let b = self.eval(&t[1], false)?;
                h.extract(&b)
            }
            "expand" => {
                let prk = self.eval(&t[1], false)?;
                let info = self.eval(&t[2], false)?;
                let n = self.len_of(&t[3])?;
                h.expand(&prk, &info, n)
            }
            "ksf" => {
                let inst = t[1].as_u64().unwrap() as u32;
                let x = self.eval(&t[2], false)?;
                match self.ksf_kind {
                    "test" => crate::tksf::test_ksf_eval(inst, &x),
                    "identity" => x,
                    "zst" => crate::tksf::test_ksf_eval(crate::tksf::ZST_INST, &x),
                    "argon2" => {
                        let a = crate::suites::mk_argon_pub(inst);
                        let mut out = vec![0u8; x.len()];
                        a.hash_password_into(&x, &[0u8; argon2::RECOMMENDED_SALT_LEN], &mut out)
                            .map_err(|e| EvalErr::Bad(format!("argon2: {e}")))?;
                        out
                    }
                    k => return Err(EvalErr::Bad(format!("ksf kind {k}"))),
                }
            }
            "xor" => {
                let a = self.eval(&t[1], false)?;
                let b = self.eval(&t[2], false)?;
                if a.len() != b.len() {
                    return Err(EvalErr::Bad(format!("xor of {} and {} bytes", a.len(), b.len())));
                }
                a.iter().zip(b.iter()).map(|(x, y)| x ^ y).collect()
            }
            "h2c" => {
                let pw = self.eval(&t[1], false)?;
                self.oprf.h2g(&pw)
            }
            "oel" => {
                let mut e = self.eval(&t[1], false)?;
                for k in t[2].as_array().unwrap() {
                    let s = if tag(k) == "inv" {
                        let x = self.eval(&k[1], false)?;
                        self.oprf.inv(&x)
                    } else {
                        self.eval(k, false)?
                    };
                    e = self.oprf.mul(&e, &s);
                }
                e
            }
            "okey" => {
                let ikm = self.eval(&t[1], false)?;
                self.oprf.derive_key(&ikm, b"OPAQUE-DeriveKeyPair")
            }
            "kdk" => {
                let seed = self.eval(&t[1], false)?;
                self.ke.derive(self.oprf.id(), self.hash, &seed)
            }
            "kpk" => {
                let sk = self.eval(&t[1], false)?;
                self.ke.public(&sk)
            }
            "kdh" => {
                let xs = t[1].as_array().unwrap();
                if xs.len() == 1 {
                    let sk = self.eval(&xs[0], false)?;
                    let pk = self.ke.public(&sk);
                    self.ke.dh(&sk, &pk)
                } else {
                    // one side's scalar, the other side's public key
                    let mut res = None;
                    let mut last_err = None;
                    for (a, b) in [(0, 1), (1, 0)] {
                        let sk = match self.eval(&xs[a], false) {
                            Ok(s) => s,
                            Err(e) => {
                                last_err = Some(e);
                                continue;
                            }
                        };
                        let pkterm = serde_json::json!(["kpk", xs[b]]);
                        match self.eval(&pkterm, false) {
                            Ok(pk) => {
                                res = Some(self.ke.dh(&sk, &pk));
                                break;
                            }
                            Err(e) => last_err = Some(e),
                        }
                    }
                    match res {
                        Some(r) => r,
                        None => return Err(last_err.unwrap()),
                    }
                }
            }
            other => return Err(EvalErr::Bad(format!("constructor {other} cannot be evaluated"))),
        })
    }
}

fn i2osp(n: usize, k: usize) -> Result<Vec<u8>, EvalErr> {
    if k < 8 && n >= (1usize << (8 * k)) {
        return Err(EvalErr::Bad(format!("I2OSP({n},{k}) does not fit")));
    }
    let b = (n as u64).to_be_bytes();
    Ok(b[8 - k..].to_vec())
}

pub struct Draws {
    /// tape -> (run seed, draws (offset, len))
    pub by_tape: HashMap<i64, Vec<(usize, usize)>>,
    pub run_seed: u64,
}

impl Draws {
    /// number of tape bytes the implementation consumed
    pub fn consumed(&self, tape: i64) -> usize {
        self.by_tape.get(&tape).map(|d| d.iter().map(|(o, l)| o + l).max().unwrap_or(0)).unwrap_or(0)
    }
    /// candidate positions for a random value of `len` bytes: the recorded draws of that length
    /// first, then every offset of the consumed region (an implementation may draw several values
    /// with one request, or through a larger buffer: which bytes become which value is not fixed
    /// by any property)
    pub fn candidates(&self, tape: i64, len: Option<usize>) -> Vec<(usize, usize)> {
        let draws = self.by_tape.get(&tape).cloned().unwrap_or_default();
        let mut v: Vec<(usize, usize)> = draws.iter().filter(|(_, l)| len.map(|w| w == *l).unwrap_or(true)).cloned().collect();
        if let Some(w) = len {
            let c = self.consumed(tape);
            if c >= w {
                for off in 0..=(c - w) {
                    if !v.contains(&(off, w)) {
                        v.push((off, w));
                    }
                }
            }
        }
        v
    }
    pub fn bytes(&self, tape: i64, off: usize, len: usize) -> Vec<u8> {
        use rand::RngCore;
        let mut r = crate::rng::TapeRng::new(self.run_seed, tape);
        let mut skip = vec![0u8; off];
        r.fill_bytes(&mut skip);
        let mut v = vec![0u8; len];
        r.fill_bytes(&mut v);
        v
    }
}

/// Check one output: evaluate its term; if random leaves are unbound, search the recorded draws
/// of their tapes for a binding that explains the observed bytes.
pub fn check_root(ev: &mut Evaluator, draws: &Draws, term: &Value, observed: &[u8]) -> Result<(), String> {
    if tag(term) == "rnd" {
        // the value IS a random choice: take it as made.  Raw values (seed, nonces) must be
        // bytes the caller's generator actually produced; the OPRF blind is a scalar sampled
        // from the generator by the OPRF library and is taken as observed.
        let tape = term[1].as_i64().unwrap();
        let role = term[2].as_str().unwrap().to_string();
        if role != "blind" {
            // anywhere in the bytes the operation consumed
            let c = draws.consumed(tape);
            let region = draws.bytes(tape, 0, c);
            let ok = !observed.is_empty() && region.windows(observed.len()).any(|w| w == observed);
            if !ok {
                return Err(format!("random value '{role}' = {} is not a draw of the caller's generator (tape {tape})", hex::encode(observed)));
            }
        }
        ev.rnd.insert((tape, role), observed.to_vec());
        return Ok(());
    }
    let mut tried = 0;
    loop {
        ev.memo.clear();
        match ev.eval(term, true) {
            Ok(b) => {
                if b == observed {
                    return Ok(());
                }
                return Err(format!(
                    "implementation produced {} ; the specification's formula evaluates to {}",
                    hex::encode(observed), hex::encode(&b)));
            }
            Err(EvalErr::Bad(m)) => return Err(format!("evaluation error: {m}")),
            Err(EvalErr::NeedRnd(tape, role)) => {
                // candidates: every draw of that tape; accept the one that explains the observation
                let mut found = false;
                let want = match role.as_str() {
                    "sk" | "fake" | "eseed" | "seseed" => Some(ev.lens.nsk),
                    "fakemk" | "seed" => Some(ev.lens.nh),
                    "envnonce" | "mnonce" | "cnonce" | "snonce" => Some(ev.lens.nn),
                    _ => None,
                };
                let cands = draws.candidates(tape, want);
                for (off, len) in cands {
                    let bytes = draws.bytes(tape, off, len);
                    ev.rnd.insert((tape, role.clone()), bytes);
                    ev.memo.clear();
                    match ev.eval(term, true) {
                        Ok(b) if b == observed => {
                            found = true;
                            break;
                        }
                        Err(EvalErr::NeedRnd(t2, r2)) if (t2, r2.clone()) != (tape, role.clone()) => {
                            // another unbound leaf: keep this candidate tentatively and recurse
                            if check_root(ev, draws, term, observed).is_ok() {
                                found = true;
                                break;
                            }
                        }
                        _ => {}
                    }
                    ev.rnd.remove(&(tape, role.clone()));
                }
                if found {
                    return Ok(());
                }
                tried += 1;
                if tried > 0 {
                    return Err(format!(
                        "no draw of tape {tape} in role '{role}' explains the observed value {}: it is not derived from the caller's randomness by the specification's formula",
                        hex::encode(observed)));
                }
            }
        }
    }
}

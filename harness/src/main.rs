mod conc;
mod extkey;
mod refgroup;
mod rng;
mod suite;
mod suites;
mod tksf;
mod wire;
mod world;

use serde_json::json;

fn main() {
    let all = suites::all();
    let args: Vec<String> = std::env::args().collect();
    if args.len() > 1 && args[1] == "smoke" {
        for s in &all {
            let prof = conc::profiles(1, false)[0].clone();
            let mut w = world::World::new(s.as_ref(), 1, prof);
            let evs = vec![
                json!({"ev":"SetupNew","id":1,"tape":1}),
                json!({"ev":"CRegStart","id":1,"pw":-2,"tape":102}),
            ];
            for e in evs {
                let (e2, o) = w.record(e);
                println!("{} {} {:?}", s.name(), e2, o.problems);
            }
        }
    }
}

mod conc;
mod crosske;
mod enc;
mod eval;
mod extkey;
mod group;
mod refgroup;
mod record;
mod replay;
mod rng;
mod suite;
mod suites;
mod tksf;
mod watch;
mod wire;
mod world;

use serde_json::{json, Value};
use std::collections::HashMap;
use std::io::{BufRead, Write};

pub struct Args {
    pub cmd: String,
    pub kv: HashMap<String, String>,
}
impl Args {
    fn parse() -> Args {
        let a: Vec<String> = std::env::args().collect();
        let cmd = a.get(1).cloned().unwrap_or_default();
        let mut kv = HashMap::new();
        let mut i = 2;
        while i < a.len() {
            if let Some(k) = a[i].strip_prefix("--") {
                let v = a.get(i + 1).cloned().unwrap_or_default();
                kv.insert(k.to_string(), v);
                i += 2;
            } else {
                i += 1;
            }
        }
        Args { cmd, kv }
    }
    pub fn get(&self, k: &str, d: &str) -> String {
        self.kv.get(k).cloned().unwrap_or_else(|| d.to_string())
    }
    pub fn num(&self, k: &str, d: u64) -> u64 {
        self.kv.get(k).and_then(|v| v.parse().ok()).unwrap_or(d)
    }
}

/// Suite selection: "quick" = the five diagonal suites (every group file exercised) plus two
/// seed-rotated mixed suites; "all" = the 20 OPRF x KE combinations; "full" = all 28;
/// or a comma-separated list of substrings of suite names.
pub fn select_suites<'a>(all: &'a [Box<dyn suite::Suite>], sel: &str, seed: u64) -> Vec<&'a dyn suite::Suite> {
    let test: Vec<&dyn suite::Suite> = all.iter().filter(|s| s.ksf_kind() == "test").map(|s| s.as_ref()).collect();
    let diag = |s: &&dyn suite::Suite| {
        matches!(
            (s.oprf(), s.ke()),
            ("ristretto255-SHA512", "ristretto255")
                | ("P256-SHA256", "P-256")
                | ("P384-SHA384", "P-384")
                | ("P521-SHA512", "P-521")
                | ("ristretto255-SHA512", "Curve25519")
        )
    };
    match sel {
        "quick" => {
            let mut v: Vec<&dyn suite::Suite> = test.iter().filter(|s| diag(s)).copied().collect();
            // mixed suites in which the OPRF group's and the KE group's lengths really differ
            let mixed: Vec<&dyn suite::Suite> = test.iter().filter(|s| !diag(s) && s.lens().nok != s.lens().nsk).copied().collect();
            for k in 0..2 {
                v.push(mixed[((seed as usize) * 2 + k * 7) % mixed.len()]);
            }
            v
        }
        "diag" => test.iter().filter(|s| diag(s)).copied().collect(),
        "all" => test,
        "full" => all.iter().map(|s| s.as_ref()).collect(),
        "identity" => all.iter().filter(|s| s.ksf_kind() == "identity").map(|s| s.as_ref()).collect(),
        "argon2" => all.iter().filter(|s| s.ksf_kind() == "argon2").map(|s| s.as_ref()).collect(),
        "zst" => all.iter().filter(|s| s.ksf_kind() == "zst").map(|s| s.as_ref()).collect(),
        list => all
            .iter()
            .filter(|s| list.split(',').any(|p| s.name() == p || (p.len() > 3 && s.name().contains(p))))
            .map(|s| s.as_ref())
            .collect(),
    }
}

fn read_behaviours(path: &str) -> Vec<Vec<Value>> {
    let f = std::fs::File::open(path).expect("behaviours file");
    let mut v = Vec::new();
    for line in std::io::BufReader::new(f).lines() {
        let line = line.unwrap();
        let line = line.trim();
        if line.is_empty() {
            continue;
        }
        let val: Value = serde_json::from_str(line).expect("behaviour line");
        v.push(val.as_array().expect("array").clone());
    }
    v
}

fn main() {
    // panics inside opaque-ke are data (C12); keep the default hook quiet
    if std::env::var("VERIF_PANIC").is_err() {
        std::panic::set_hook(Box::new(|_| {}));
    }
    let all = suites::all();
    let args = Args::parse();
    let seed = args.num("seed", 0);
    // a call into opaque-ke that never returns ends the process with exit code 3 and a replay file
    watch::start(args.get("replay-dir", &std::env::var("VERIF_REPLAY_DIR").unwrap_or_default()),
                 args.get("prop", &std::env::var("VERIF_PROP").unwrap_or_default()));
    match args.cmd.as_str() {
        "suites" => {
            for s in &all {
                println!("{} {:?}", s.name(), s.lens());
            }
        }
        "replay" => {
            let prop = args.get("prop", "C00");
            let out_path = args.get("out", "");
            if let Some(rp) = args.kv.get("replay") {
                // re-execute exactly one recorded failing case
                let v: Value = serde_json::from_str(&std::fs::read_to_string(rp).expect("replay file")).unwrap();
                let sname = v["suite"].as_str().unwrap();
                let s = all.iter().find(|s| s.name() == sname).expect("suite");
                let p = &v["profile"];
                let prof = conc::Profile {
                    pw: p["pw"].as_u64().unwrap() as usize,
                    cid: p["cid"].as_u64().unwrap() as usize,
                    ctx: p["ctx"].as_u64().unwrap() as usize,
                    id: p["id"].as_u64().unwrap() as usize,
                    seed: p["seed"].as_u64().unwrap(),
                };
                let evs = v["behaviour"].as_array().unwrap().clone();
                let opts = replay::Opts {
                    sweep: match v["opts"]["sweep"].as_str().unwrap_or("none") { "quick" => replay::Sweep::Quick, "full" => replay::Sweep::Full, _ => replay::Sweep::None },
                    sweep_fin: v["opts"]["sweep_fin"].as_bool().unwrap_or(false),
                    shadow_no_reload: v["opts"]["shadow_no_reload"].as_bool().unwrap_or(false),
                    shadow_direct: v["opts"]["shadow_direct"].as_bool().unwrap_or(false),
                    scan_secrets: v["opts"]["scan_secrets"].as_bool().unwrap_or(false),
                    tape_swap: v["opts"]["tape_swap"].as_bool().unwrap_or(false),
                    tape_multi_only: v["opts"]["tape_multi_only"].as_bool().unwrap_or(false),
                    check_ksf: v["opts"]["check_ksf"].as_bool().unwrap_or(false),
                    shared_rng: v["opts"]["shared_rng"].as_bool().unwrap_or(false),
                    same_tapes: v["opts"]["same_tapes"].as_bool().unwrap_or(false),
                    msg_codec: v["opts"]["msg_codec"].as_u64().unwrap_or(0) as u8,
                    ext_fail_at: v["opts"]["ext_fail_at"].as_u64().unwrap_or(1) as u32,
                };
                let r = replay::run_one(s.as_ref(), &prof, v["run_seed"].as_u64().unwrap(), &evs, &opts);
                match r.violation {
                    Some((step, kind, detail)) => {
                        println!("REPRODUCED step={} kind={} {}", step, kind, detail);
                        std::process::exit(1);
                    }
                    None => {
                        println!("NOT-REPRODUCED (the behaviour now conforms)");
                        std::process::exit(0);
                    }
                }
            }
            let beh = read_behaviours(&args.get("behaviours", ""));
            let thorough = args.get("tier", "quick") == "thorough";
            let sel = select_suites(&all, &args.get("suites", "quick"), seed);
            let mut profiles = conc::profiles(seed, thorough);
            let np = args.num("profiles", 0) as usize;
            if np > 0 && np < profiles.len() {
                profiles.truncate(np);
            }
            let job = replay::Job {
                behaviours: &beh,
                suites: sel.clone(),
                profiles: profiles.clone(),
                run_seed: seed,
                threads: args.num("threads", 12) as usize,
                per_behaviour: args.num("per-behaviour", 0) as usize,
                max_violations: 20,
                opts: replay::Opts {
                    sweep: match args.get("sweep", "none").as_str() { "quick" => replay::Sweep::Quick, "full" => replay::Sweep::Full, _ => replay::Sweep::None },
                    sweep_fin: args.get("sweep-fin", "no") == "yes",
                    shadow_no_reload: args.get("shadow-no-reload", "no") == "yes",
                    shadow_direct: args.get("shadow-direct", "no") == "yes",
                    scan_secrets: args.get("scan-secrets", "no") == "yes",
                    tape_swap: args.get("tape-swap", "no") == "yes",
                    tape_multi_only: args.get("tape-multi-only", "no") == "yes",
                    check_ksf: args.get("check-ksf", "no") == "yes",
                    shared_rng: args.get("shared-rng", "no") == "yes",
                    same_tapes: args.get("same-tapes", "no") == "yes",
                    msg_codec: match args.get("msg-codec", "native").as_str() { "bincode" => 1, "json" => 2, _ => 0 },
                    ext_fail_at: args.num("ext-fail-at", 1) as u32,
                },
            };
            let opts_json = json!({"sweep": args.get("sweep", "none"), "sweep_fin": job.opts.sweep_fin,
                "shadow_no_reload": job.opts.shadow_no_reload, "shadow_direct": job.opts.shadow_direct,
                "scan_secrets": job.opts.scan_secrets, "tape_swap": job.opts.tape_swap, "tape_multi_only": job.opts.tape_multi_only, "check_ksf": job.opts.check_ksf, "shared_rng": job.opts.shared_rng, "same_tapes": job.opts.same_tapes, "msg_codec": job.opts.msg_codec,
                "ext_fail_at": job.opts.ext_fail_at});
            let t0 = std::time::Instant::now();
            let sum = replay::run(&job);
            let dir = args.get("replay-dir", "/verif/replays");
            std::fs::create_dir_all(&dir).ok();
            let mut vio = Vec::new();
            for v in &sum.violations {
                let mut j = v.to_json(&prop);
                j["opts"] = opts_json.clone();
                let h = refgroup::HashKind::Sha256.hash(&[serde_json::to_string(&j).unwrap().as_bytes()]);
                let path = format!("{}/{}-{}.json", dir, prop, hex::encode(&h[..6]));
                std::fs::write(&path, serde_json::to_string_pretty(&j).unwrap()).unwrap();
                vio.push(json!({"replay": path, "suite": v.suite, "kind": v.kind, "detail": v.detail,
                                "behaviour_index": v.behaviour, "step": v.step,
                                "event": v.events[v.step]}));
            }
            let summary = json!({
                "behaviours": beh.len(),
                "suites": sel.iter().map(|s| s.name()).collect::<Vec<_>>(),
                "profiles": profiles.iter().map(|p| p.describe()).collect::<Vec<_>>(),
                "executions": sum.executions,
                "nontrivial": sum.nontrivial,
                "sweep_evaluations": sum.sweep_evals,
                "events": sum.events,
                "accepting_steps": sum.accepts,
                "rejecting_steps": sum.rejects,
                "discarded_noninjective": sum.discarded,
                "violations": vio,
                "wall_s": t0.elapsed().as_secs_f64(),
            });
            if out_path.is_empty() {
                println!("{}", serde_json::to_string_pretty(&summary).unwrap());
            } else {
                let mut f = std::fs::File::create(&out_path).unwrap();
                f.write_all(serde_json::to_string(&summary).unwrap().as_bytes()).unwrap();
            }
        }
        "bytes" => {
            // C09: evaluate the full term of every output with reference primitives
            let sel = select_suites(&all, &args.get("suites", "quick"), seed);
            let thorough = args.get("tier", "quick") == "thorough";
            let profiles = conc::profiles(seed, thorough);
            let per = args.num("per-behaviour", 3) as usize;
            let f = std::fs::File::open(args.get("behaviours", "")).expect("behaviours");
            let lines: Vec<Value> = std::io::BufReader::new(f).lines().map(|l| serde_json::from_str(&l.unwrap()).unwrap()).collect();
            let mut items = Vec::new();
            let combos: Vec<(usize, usize)> = (0..sel.len()).flat_map(|s| (0..profiles.len()).map(move |p| (s, p))).collect();
            for b in 0..lines.len() {
                for k in 0..per.min(combos.len()) {
                    let (s, p) = combos[(b * per + k * 7 + seed as usize) % combos.len()];
                    items.push((b, s, p));
                }
            }
            let next = std::sync::atomic::AtomicUsize::new(0);
            let out = std::sync::Mutex::new((0usize, 0usize, 0usize, Vec::<Value>::new(), Vec::<Value>::new()));
            std::thread::scope(|sc| {
                for _ in 0..args.num("threads", 12) {
                    sc.spawn(|| loop {
                        let i = next.fetch_add(1, std::sync::atomic::Ordering::Relaxed);
                        if i >= items.len() { break; }
                        let (b, si, pi) = items[i];
                        let suite = sel[si];
                        let prof = &profiles[pi];
                        let events = lines[b]["events"].as_array().unwrap();
                        let terms = lines[b]["terms"].as_array().unwrap();
                        let mut w = world::World::new(suite, seed, prof.clone());
                        let mut draws = eval::Draws { by_tape: HashMap::new(), run_seed: seed };
                        let mut bad: Option<Value> = None;
                        for (n, e) in events.iter().enumerate() {
                            let o = w.step(e);
                            if let Some(t) = e.get("tape").and_then(|t| t.as_i64()) {
                                draws.by_tape.entry(t).or_default().extend(o.draws.iter().cloned());
                            }
                            if let Some((k, d)) = replay::compare_step(&mut w, e, &o) {
                                bad = Some(json!({"suite": suite.name(), "behaviour_index": b, "step": n, "kind": k, "detail": d}));
                                break;
                            }
                        }
                        if w.atoms_collide() { continue; }
                        let mut checked = 0;
                        let mut evals = 0;
                        if bad.is_none() {
                            let refo = refgroup::oprf_by_name(suite.oprf());
                            let refk = refgroup::ke_by_name(suite.ke());
                            let mut ev = eval::Evaluator {
                                profile: prof, lens: suite.lens(), oprf: refo.as_ref(), ke: refk.as_ref(),
                                hash: refo.hash(), ksf_kind: suite.ksf_kind(), observed: HashMap::new(),
                                rnd: HashMap::new(), memo: HashMap::new(), evaluations: 0,
                            };
                            for (i, t) in terms.iter().enumerate() {
                                if let Some(v) = w.intern.get(i + 1) {
                                    ev.observed.insert(t.to_string(), v.clone());
                                }
                            }
                            for (i, t) in terms.iter().enumerate() {
                                let Some(obs) = w.intern.get(i + 1).cloned() else { break };
                                checked += 1;
                                if let Err(m) = eval::check_root(&mut ev, &draws, t, &obs) {
                                    let ts = t.to_string();
                                    bad = Some(json!({"suite": suite.name(), "behaviour_index": b, "value_id": i + 1, "kind": "bytes",
                                        "detail": format!("value #{} ({}...): {}", i + 1, &ts[..ts.len().min(160)], m)}));
                                    break;
                                }
                            }
                            evals = ev.evaluations;
                        }
                        let mut o = out.lock().unwrap();
                        o.0 += 1;
                        o.1 += checked;
                        o.2 += evals;
                        if o.4.len() < 2 && checked > 0 {
                            o.4.push(json!({"suite": suite.name(), "profile": prof.describe(), "values_checked": checked,
                                "example_term": terms.last().map(|t| { let s = t.to_string(); s[..s.len().min(300)].to_string() })}));
                        }
                        if let Some(mut v) = bad {
                            if o.3.len() < 20 {
                                v["profile"] = json!({"pw": prof.pw, "cid": prof.cid, "ctx": prof.ctx, "id": prof.id, "seed": prof.seed});
                                v["run_seed"] = json!(seed);
                                v["line"] = lines[b].clone();
                                o.3.push(v);
                            }
                        }
                    });
                }
            });
            let o = out.into_inner().unwrap();
            let dir = args.get("replay-dir", "/verif/replays");
            std::fs::create_dir_all(&dir).ok();
            let mut vio = Vec::new();
            for v in o.3 {
                let h = refgroup::HashKind::Sha256.hash(&[v["detail"].to_string().as_bytes(), v["suite"].to_string().as_bytes()]);
                let path = format!("{}/{}-bytes-{}.json", dir, args.get("prop", "C09"), hex::encode(&h[..6]));
                std::fs::write(&path, serde_json::to_string(&v).unwrap()).unwrap();
                vio.push(json!({"replay": path, "suite": v["suite"], "kind": v["kind"], "detail": v["detail"]}));
            }
            println!("{}", json!({"executions": o.0, "values_checked": o.1, "term_evaluations": o.2,
                "suites": sel.iter().map(|s| s.name()).collect::<Vec<_>>(), "violations": vio, "samples": o.4}));
        }
        "crosske" => {
            // C14: KE-independent values across suites sharing an OPRF suite
            let sel = select_suites(&all, &args.get("suites", "all"), seed);
            let profs = conc::profiles(seed, args.get("tier", "quick") != "quick");
            println!("{}", crosske::run(&sel, seed, &profs));
        }
        "group" => {
            // C19
            let sel = select_suites(&all, &args.get("suites", "all"), seed);
            let f = std::fs::File::open(args.get("behaviours", "")).expect("behaviours");
            let lines: Vec<Value> = std::io::BufReader::new(f).lines().map(|l| serde_json::from_str(&l.unwrap()).unwrap()).collect();
            let xf = std::fs::File::open(args.get("behaviours-x", "")).expect("behaviours-x");
            let xlines: Vec<Value> = std::io::BufReader::new(xf).lines().map(|l| serde_json::from_str(&l.unwrap()).unwrap()).collect();
            let nrand = args.num("random", 200) as usize;
            let results: Vec<Value> = std::thread::scope(|sc| {
                let hs: Vec<_> = sel.iter().map(|s| {
                    let (lines, xlines) = (&lines, &xlines);
                    sc.spawn(move || {
                        let ls = if s.ke() == "Curve25519" { xlines } else { lines };
                        let (mut steps, mut values, mut vio) = (0, 0, Vec::new());
                        let mut refused = 0;
                        for (i, l) in ls.iter().enumerate() {
                            // every behaviour draws its seeds / random keys / imported keys from its own tapes
                            let o = group::run_behaviour(*s, seed.wrapping_add(i as u64 * 7919), l);
                            steps += o.steps;
                            values += o.values;
                            if o.refused { refused += 1; }
                            if let Some(mut v) = o.violation {
                                v["behaviour_index"] = json!(i);
                                v["line"] = l.clone();
                                if vio.len() < 3 { vio.push(v); }
                            }
                        }
                        let (re, rv) = group::random_keys(*s, seed, nrand);
                        if let Some(v) = rv { vio.push(v); }
                        json!({"suite": s.name(), "behaviours": ls.len(), "import_refused": refused, "steps": steps, "values": values, "random_keys": re, "violations": vio})
                    })
                }).collect();
                hs.into_iter().map(|h| h.join().unwrap()).collect()
            });
            println!("{}", json!({"results": results}));
        }
        "encoding" => {
            let sel = select_suites(&all, &args.get("suites", "quick"), seed);
            let f = std::fs::File::open(args.get("pairs", "")).expect("pairs");
            let mut pairs = Vec::new();
            let mut lengths: Vec<(usize, bool)> = Vec::new();
            for line in std::io::BufReader::new(f).lines() {
                let v: Value = serde_json::from_str(&line.unwrap()).unwrap();
                if v.get("kind").is_some() {
                    pairs.push((v["kind"].as_str().unwrap().to_string(), enc::triple(&v["A"]), enc::triple(&v["B"])));
                } else if let Some(o) = v.as_object() {
                    for (k, e) in o {
                        lengths.push((k.parse().unwrap(), e.as_bool().unwrap()));
                    }
                }
            }
            let max = args.num("max-pairs", 400) as usize;
            if pairs.len() > max {
                // seeded sample
                let mut rng = record::Prng(seed ^ 0xe17c);
                let mut pick = Vec::new();
                for _ in 0..max {
                    pick.push(pairs[rng.below(pairs.len())].clone());
                }
                pairs = pick;
            }
            let results: Vec<Value> = std::thread::scope(|sc| {
                let hs: Vec<_> = sel.iter().map(|s| {
                    let (pairs, lengths) = (&pairs, &lengths);
                    sc.spawn(move || {
                        let o = enc::run(*s, seed, pairs, lengths);
                        json!({"suite": s.name(), "flows": o.flows, "accepted": o.accepted, "rejected": o.rejected,
                               "refused": o.refused, "violations": o.violations})
                    })
                }).collect();
                hs.into_iter().map(|h| h.join().unwrap()).collect()
            });
            println!("{}", json!({"pairs": pairs.len(), "results": results}));
        }
        "wire-replay" => {
            let v: Value = serde_json::from_str(&std::fs::read_to_string(args.get("file", "")).expect("replay file")).unwrap();
            let s = all.iter().find(|s| s.name() == v["suite"].as_str().unwrap()).expect("suite");
            let mut ctx = wire::WireCtx::new(s.as_ref(), v["seed"].as_u64().unwrap_or(0));
            let input = hex::decode(v["input"].as_str().unwrap()).unwrap();
            if v["info"]["source"].as_str() == Some("serde structure mutation") {
                // the input is a serde encoding (JSON text or bincode bytes), not a native one
                let codec = if v["detail"].as_str().unwrap_or("").contains("Json") { suite::Codec::Json } else { suite::Codec::Bincode };
                let d = v["decoder"].as_str().unwrap();
                let got = std::panic::catch_unwind(std::panic::AssertUnwindSafe(|| s.from_serde(d, &input, codec)));
                match got {
                    Err(_) => { println!("REPRODUCED panic in the serde decoder of {d}"); std::process::exit(1); }
                    Ok(Ok(re)) => { println!("decoder accepted; re-encodes to {} bytes: {}", re.len(), hex::encode(&re)); std::process::exit(if v["kind"] == "accepts-wrong-length" { 1 } else { 0 }); }
                    Ok(Err(e)) => { println!("NOT-REPRODUCED (refused: {e})"); std::process::exit(0); }
                }
            }
            ctx.check_one(v["decoder"].as_str().unwrap(), &input, None, &json!({}));
            if ctx.violations.is_empty() {
                println!("NOT-REPRODUCED (decoder and specification agree on this input)");
            } else {
                println!("REPRODUCED {}", ctx.violations[0]);
                std::process::exit(1);
            }
        }
        "wire" => {
            // C10 C11 C12: concretize the verdict table TLC emitted from Wire.tla
            let sel = select_suites(&all, &args.get("suites", "quick"), seed);
            let table = args.get("table", "");
            let mut rows: HashMap<String, Vec<Value>> = HashMap::new();
            let f = std::fs::File::open(&table).expect("table");
            for line in std::io::BufReader::new(f).lines() {
                let v: Value = serde_json::from_str(&line.unwrap()).unwrap();
                rows.entry(v["suite"].as_str().unwrap().to_string()).or_default().push(v);
            }
            let fuzz_n = args.num("fuzz", 300) as usize;
            let results: Vec<Value> = std::thread::scope(|sc| {
                let hs: Vec<_> = sel.iter().map(|s| {
                    let rows = &rows;
                    sc.spawn(move || {
                        let key = format!("{}/{}", s.oprf(), s.ke());
                        let mut ctx = wire::WireCtx::new(*s, seed);
                        let rs = rows.get(&key).map(|r| r.as_slice()).unwrap_or(&[]);
                        for r in rs {
                            ctx.check_row(r);
                        }
                        let table_evals = ctx.evals;
                        ctx.fuzz(seed, fuzz_n);
                        json!({"suite": s.name(), "rows": rs.len(), "table_evaluations": table_evals,
                               "evaluations": ctx.evals, "accepted": ctx.accepted, "rejected": ctx.rejected,
                               "violations": ctx.violations})
                    })
                }).collect();
                hs.into_iter().map(|h| h.join().unwrap()).collect()
            });
            println!("{}", json!({"results": results}));
        }
        "record" => {
            // direction B: drive the real code, write the trace for TLC
            let sel = select_suites(&all, &args.get("suites", "quick"), seed);
            let segments = args.num("segments", 4) as usize;
            let steps = args.num("steps", 40) as usize;
            let adv = args.num("adversarial", 35);
            let out = args.get("out", "/verif/work/trace.ndjson");
            let driver = args.get("driver", "random");
            let profiles = conc::profiles(seed, false);
            let mut f = std::io::BufWriter::new(std::fs::File::create(&out).unwrap());
            let mut total = 0usize;
            let mut problems = Vec::new();
            let mut samples = Vec::new();
            let mut segs = 0usize;
            for (si, s) in sel.iter().enumerate() {
                let mut rng = record::Prng(seed.wrapping_mul(1000003).wrapping_add(si as u64));
                for g in 0..segments {
                    let prof = profiles[(si + g) % profiles.len()].clone();
                    let mut r = record::Recorder::new(*s, seed.wrapping_add((si * 1000 + g) as u64), prof);
                    r.long_pct = args.num("long", 0);
                    match driver.as_str() {
                        "random" => r.random_segment(&mut rng, steps, adv),
                        "ksf" => r.ksf_segment(&mut rng),
                        other => panic!("unknown driver {other}"),
                    }
                    if r.w.atoms_collide() {
                        continue;
                    }
                    r.reset();
                    for (i, p) in &r.problems {
                        problems.push(json!({"suite": s.name(), "segment": g, "event": i, "problem": p}));
                    }
                    if samples.len() < 3 {
                        samples.push(json!({"suite": s.name(), "recorded_events": r.events.iter().rev().skip(1).take(3).collect::<Vec<_>>()}));
                    }
                    for e in &r.events {
                        writeln!(f, "{}", serde_json::to_string(e).unwrap()).unwrap();
                    }
                    total += r.events.len();
                    segs += 1;
                }
            }
            f.flush().unwrap();
            println!("{}", json!({"trace": out, "events": total, "segments": segs,
                "suites": sel.iter().map(|s| s.name()).collect::<Vec<_>>(), "problems": problems, "samples": samples}));
        }
        other => {
            eprintln!("unknown command {other:?}");
            std::process::exit(2);
        }
    }
}

//! Concrete members of the abstract input classes of spec/Wire.tla, and the abstraction
//! function (classifier) from concrete bytes to classes, written on the reference predicates
//! of refgroup.rs (never on opaque-ke's own decoders).
use crate::refgroup::{self, HashKind};

fn be_inc(mut v: Vec<u8>) -> Vec<u8> {
    for b in v.iter_mut().rev() {
        let (n, c) = b.overflowing_add(1);
        *b = n;
        if !c {
            break;
        }
    }
    v
}
fn le_inc(mut v: Vec<u8>) -> Vec<u8> {
    for b in v.iter_mut() {
        let (n, c) = b.overflowing_add(1);
        *b = n;
        if !c {
            break;
        }
    }
    v
}

/// Invalid encodings of a group element ("elem") or scalar ("scalar") of the named group
/// (an OPRF suite id or a KE group name), each labelled with its class.  Every member is
/// checked against the reference predicate when it is generated.
pub fn invalid_encodings(group: &str, what: &str, len: usize) -> Vec<(String, Vec<u8>)> {
    let mut v: Vec<(String, Vec<u8>)> = Vec::new();
    let rist = group.starts_with("ristretto255");
    let x = group == "Curve25519";
    if what == "elem" {
        if rist {
            v.push(("identity".into(), vec![0u8; 32]));
            // s = p (non-canonical field element), s = 2^255 - 1
            let mut p = vec![0xffu8; 32];
            p[0] = 0xed;
            p[31] = 0x7f;
            v.push(("noncanonical-s-eq-p".into(), p.clone()));
            v.push(("noncanonical-s-ge-p".into(), { let mut q = vec![0xffu8; 32]; q[31] = 0x7f; q }));
            v.push(("high-bit-set".into(), { let mut q = vec![0u8; 32]; q[31] = 0x80; q }));
            // negative s (odd)
            v.push(("negative-s".into(), { let mut q = vec![0u8; 32]; q[0] = 1; q }));
            // non-square: search
            let k = refgroup::RistKe;
            let mut found = 0;
            let mut i = 0u32;
            while found < 3 {
                let mut b = HashKind::Sha256.hash(&[b"nonsquare", &i.to_be_bytes()]);
                b[31] &= 0x3f;
                b[0] &= 0xfe;
                use refgroup::RefKe;
                if !k.pk_valid(&b) {
                    v.push((format!("nonsquare-{found}"), b));
                    found += 1;
                }
                i += 1;
            }
        } else if x {
            let hexes = [
                ("zero", "0000000000000000000000000000000000000000000000000000000000000000"),
                ("small-order-u1", "0100000000000000000000000000000000000000000000000000000000000000"),
                ("small-order-8a", "e0eb7a7c3b41b8ae1656e3faf19fc46ada098deb9c32b1fd866205165f49b800"),
                ("small-order-8b", "5f9c95bca3508c24b1d0b1559c83ef5b04445cc4581c8e86d8224eddd09f1157"),
                ("small-order-p-1", "ecffffffffffffffffffffffffffffffffffffffffffffffffffffffffffff7f"),
                ("zero-nonreduced-p", "edffffffffffffffffffffffffffffffffffffffffffffffffffffffffffff7f"),
                ("small-order-nonreduced-p+1", "eeffffffffffffffffffffffffffffffffffffffffffffffffffffffffffff7f"),
                ("zero-highbit", "0000000000000000000000000000000000000000000000000000000000000080"),
                ("small-order-u1-highbit", "0100000000000000000000000000000000000000000000000000000000000080"),
                ("small-order-8a-highbit", "e0eb7a7c3b41b8ae1656e3faf19fc46ada098deb9c32b1fd866205165f49b880"),
                ("small-order-8b-highbit", "5f9c95bca3508c24b1d0b1559c83ef5b04445cc4581c8e86d8224eddd09f11d7"),
                ("small-order-p-1-highbit", "ecffffffffffffffffffffffffffffffffffffffffffffffffffffffffffffff"),
                ("zero-nonreduced-p-highbit", "edffffffffffffffffffffffffffffffffffffffffffffffffffffffffffffff"),
                ("small-order-nonreduced-p+1-highbit", "eeffffffffffffffffffffffffffffffffffffffffffffffffffffffffffffff"),
            ];
            for (n, h) in hexes {
                v.push((n.into(), hex::decode(h).unwrap()));
            }
        } else {
            // NIST compressed points
            v.push(("all-zero".into(), vec![0u8; len]));
            let k = refgroup::ke_by_name(match len {
                33 => "P-256",
                49 => "P-384",
                _ => "P-521",
            });
            // a valid point, then alter the tag
            let good = refgroup::fresh_kpk(k.as_ref(), 7);
            for tag in [0u8, 1, 4, 5, 6, 7, 0xff] {
                let mut b = good.clone();
                b[0] = tag;
                v.push((format!("tag-{tag:02x}"), b));
            }
            // x not on the curve: search
            let mut found = 0;
            let mut i = 0u32;
            while found < 3 {
                let mut b = vec![2u8];
                let mut body = Vec::new();
                let mut c = 0u8;
                while body.len() < len - 1 {
                    body.extend_from_slice(&HashKind::Sha512.hash(&[b"offcurve", &i.to_be_bytes(), &[c]]));
                    c += 1;
                }
                body.truncate(len - 1);
                if len == 67 {
                    body[0] &= 0x01;
                }
                b.extend_from_slice(&body);
                if !k.pk_valid(&b) {
                    v.push((format!("x-not-on-curve-{found}"), b));
                    found += 1;
                }
                i += 1;
            }
            // x >= p
            let mut b = vec![0xffu8; len];
            b[0] = 2;
            v.push(("x-ge-p-allff".into(), b));
            if len == 67 {
                // 521 bits: x = 2^521 - 1 = p  (top byte 0x01, rest ff)
                let mut b = vec![0xffu8; len];
                b[0] = 3;
                b[1] = 0x01;
                v.push(("x-eq-p".into(), b));
                let mut b = vec![0xffu8; len];
                b[0] = 2;
                b[1] = 0x02;
                v.push(("x-bit-521-set".into(), b));
            }
        }
        let ok: Box<dyn Fn(&[u8]) -> bool> = if rist || x || !group.contains("SHA") {
            let k = refgroup::ke_by_name(if rist { "ristretto255" } else { group });
            Box::new(move |b| k.pk_valid(b))
        } else {
            let o = refgroup::oprf_by_name(group);
            Box::new(move |b| o.elem_valid(b))
        };
        for (n, b) in &v {
            assert!(!ok(b), "reference accepts invalid-class member {n}");
            assert_eq!(b.len(), len);
        }
    } else {
        v.push(("zero".into(), vec![0u8; len]));
        if rist {
            let l = hex::decode("edd3f55c1a631258d69cf7a2def9de1400000000000000000000000000000010").unwrap();
            v.push(("eq-order".into(), l.clone()));
            v.push(("order-plus-1".into(), le_inc(l)));
            v.push(("all-ff".into(), vec![0xffu8; 32]));
            v.push(("high-bit".into(), { let mut q = vec![0u8; 32]; q[31] = 0x80; q[0] = 1; q }));
        } else if x {
            v.push(("unclamped-1".into(), { let mut q = vec![0u8; 32]; q[0] = 1; q }));
            v.push(("unclamped-allff".into(), vec![0xffu8; 32]));
            v.push(("unclamped-lowbits".into(), { let mut q = vec![0x40u8; 32]; q[0] = 0x47; q }));
            v.push(("unclamped-bit254-clear".into(), { let mut q = vec![0x08u8; 32]; q[31] = 0x08; q }));
        } else {
            let k = refgroup::ke_by_name(match len {
                32 => "P-256",
                48 => "P-384",
                _ => "P-521",
            });
            let nm1 = k.extreme_sks()[1].clone();
            v.push(("eq-order".into(), be_inc(nm1.clone())));
            v.push(("order-plus-1".into(), be_inc(be_inc(nm1))));
            v.push(("all-ff".into(), vec![0xffu8; len]));
        }
        let ok: Box<dyn Fn(&[u8]) -> bool> = if group.contains("SHA") {
            let o = refgroup::oprf_by_name(group);
            Box::new(move |b| o.scalar_valid(b))
        } else {
            let k = refgroup::ke_by_name(group);
            Box::new(move |b| k.sk_valid(b))
        };
        for (n, b) in &v {
            assert!(!ok(b), "reference accepts invalid scalar member {n}");
            assert_eq!(b.len(), len);
        }
    }
    v
}


/// Map the label of a concrete invalid member to the abstract class name used in spec/Wire.tla
pub fn tla_class(group: &str, what: &str, label: &str) -> &'static str {
    let rist = group.starts_with("ristretto255");
    let x = group == "Curve25519";
    if what == "scalar" {
        if label == "zero" {
            return "zero";
        }
        return if x { "unclamped" } else { "georder" };
    }
    if rist {
        if label == "identity" {
            "identity"
        } else if label.starts_with("negative") {
            "negative"
        } else if label.starts_with("nonsquare") {
            "nonsquare"
        } else {
            "noncanonical"
        }
    } else if x {
        match label {
            "zero" => "zero",
            l if l.starts_with("zero") => "zerononreduced",
            "small-order-u1" | "small-order-8a" | "small-order-8b" | "small-order-p-1" => "smallorder",
            _ => "smallordernonreduced",
        }
    } else if label == "tag-05" {
        "compact"
    } else if label.starts_with("tag") {
        "badtag"
    } else if label.starts_with("x-not") {
        "offcurve"
    } else if label == "all-zero" {
        "allzero"
    } else {
        "xgep"
    }
}

use crate::rng::TapeRng;
use crate::suite::{Codec, Kind, Lens, Suite, DECODERS};
use serde_json::{json, Value};

/// field layout of every decoder: (kind, length); the same table as Layout in spec/Wire.tla
pub fn layout(decoder: &str, l: &Lens) -> Vec<(&'static str, usize)> {
    match decoder {
        "RegistrationRequest" => vec![("oel", l.noe)],
        "RegistrationResponse" => vec![("oel", l.noe), ("kpk", l.npk)],
        "RegistrationUpload" | "ServerRegistration" => vec![("kpk", l.npk), ("b", l.nh), ("b", l.nn), ("b", l.nh)],
        "CredentialRequest" => vec![("oel", l.noe), ("b", l.nn), ("kpk", l.npk)],
        "CredentialResponse" => vec![("oel", l.noe), ("b", l.nn), ("b", l.npk + l.nn + l.nh), ("b", l.nn), ("kpk", l.npk), ("b", l.nh)],
        "CredentialFinalization" => vec![("b", l.nh)],
        "ServerSetup" => vec![("b", l.nh), ("ksk", l.nsk), ("ksk", l.nsk)],
        "ClientRegistration" => vec![("osc", l.nok), ("oel", l.noe)],
        "ClientLogin" => vec![("osc", l.nok), ("oel", l.noe), ("b", l.nn), ("kpk", l.npk), ("ksk", l.nsk), ("b", l.nn)],
        "ServerLogin" => vec![("b", l.nh), ("b", l.nh), ("b", l.nh)],
        _ => panic!("decoder {decoder}"),
    }
}

/// One valid encoding per decoder, produced by an honest run of the real API
pub fn valid_encodings(suite: &dyn Suite, seed: u64) -> std::collections::HashMap<&'static str, Vec<u8>> {
    let mut m = std::collections::HashMap::new();
    let pw = b"correct horse";
    let cid = b"user@example";
    let setup = suite.setup_new(&mut TapeRng::new(seed, 1));
    let (rreq, rst) = suite.creg_start(&mut TapeRng::new(seed, 2), pw).ok().expect("creg_start");
    let rresp = suite.sreg_start(&setup, &rreq, cid).ok().expect("sreg_start");
    let fin = suite.creg_finish(&rst, &mut TapeRng::new(seed, 3), pw, &rresp, None, None, None).ok().expect("creg_finish");
    let (creq, cst) = suite.clog_start(&mut TapeRng::new(seed, 4), pw).ok().expect("clog_start");
    let (cresp, sst) = suite
        .slog_start(&mut TapeRng::new(seed, 5), &setup, Some(&fin.upload), &creq, cid, None, None, None)
        .ok()
        .expect("slog_start");
    let cfin = suite.clog_finish(&cst, pw, &cresp, None, None, None, None).ok().expect("clog_finish");
    m.insert("RegistrationRequest", rreq);
    m.insert("RegistrationResponse", rresp);
    m.insert("RegistrationUpload", fin.upload.clone());
    m.insert("ServerRegistration", fin.upload);
    m.insert("CredentialRequest", creq);
    m.insert("CredentialResponse", cresp);
    m.insert("CredentialFinalization", cfin.fin);
    m.insert("ServerSetup", suite.setup_ser(&setup));
    m.insert("ClientRegistration", suite.ser(Kind::Reg, &rst));
    m.insert("ClientLogin", suite.ser(Kind::Cli, &cst));
    m.insert("ServerLogin", suite.ser(Kind::Srv, &sst));
    m
}

pub struct WireCtx<'a> {
    pub suite: &'a dyn Suite,
    pub lens: Lens,
    pub refo: Box<dyn refgroup::RefOprf>,
    pub refk: Box<dyn refgroup::RefKe>,
    pub valid: std::collections::HashMap<&'static str, Vec<u8>>,
    pub evals: usize,
    pub accepted: usize,
    pub rejected: usize,
    pub violations: Vec<Value>,
}

impl<'a> WireCtx<'a> {
    pub fn new(suite: &'a dyn Suite, seed: u64) -> Self {
        WireCtx {
            suite,
            lens: suite.lens(),
            refo: refgroup::oprf_by_name(suite.oprf()),
            refk: refgroup::ke_by_name(suite.ke()),
            valid: valid_encodings(suite, seed),
            evals: 0,
            accepted: 0,
            rejected: 0,
            violations: vec![],
        }
    }

    fn field_valid(&self, kind: &str, b: &[u8]) -> bool {
        match kind {
            "oel" => self.refo.elem_valid(b),
            "osc" => self.refo.scalar_valid(b),
            "kpk" => self.refk.pk_valid(b),
            "ksk" => self.refk.sk_valid(b),
            _ => true,
        }
    }

    /// The abstraction function composed with SpecDecode: exact length and every group
    /// field a valid canonical encoding (reference predicates only).
    pub fn oracle(&self, decoder: &str, b: &[u8]) -> bool {
        let lay = layout(decoder, &self.lens);
        let total: usize = lay.iter().map(|f| f.1).sum();
        if b.len() != total {
            return false;
        }
        let mut p = 0;
        for (k, n) in lay {
            if !self.field_valid(k, &b[p..p + n]) {
                return false;
            }
            p += n;
        }
        true
    }

    /// members of a class for a field of the given kind (starting from the valid field bytes)
    pub fn members(&self, kind: &str, cls: &str, valid: &[u8]) -> Vec<(String, Vec<u8>)> {
        let (group, what) = match kind {
            "oel" => (self.suite.oprf(), "elem"),
            "osc" => (self.suite.oprf(), "scalar"),
            "kpk" => (self.suite.ke(), "elem"),
            "ksk" => (self.suite.ke(), "scalar"),
            _ => return vec![("any".into(), valid.to_vec())],
        };
        match cls {
            "valid" => {
                let mut v = vec![("valid".to_string(), valid.to_vec())];
                // NIST: the other square root (tag 02 <-> 03) is a different valid point
                if what == "elem" && (valid[0] == 2 || valid[0] == 3) && valid.len() % 2 == 1 && valid.len() > 32 {
                    let mut o = valid.to_vec();
                    o[0] ^= 1;
                    v.push(("valid-other-root".into(), o));
                }
                v
            }
            "validhighbit" => {
                let mut o = valid.to_vec();
                o[31] |= 0x80;
                vec![("valid-highbit".into(), o)]
            }
            c => invalid_encodings(group, what, valid.len())
                .into_iter()
                .filter(|(label, _)| tla_class(group, what, label) == c)
                .collect(),
        }
    }

    fn report(&mut self, decoder: &str, kind: &str, detail: String, input: &[u8], extra: Value) {
        // one sample per (decoder, kind, offending field); the others are counted
        let field = self.first_bad_field(decoder, input);
        for v in self.violations.iter_mut() {
            if v["decoder"] == decoder && v["kind"] == kind && v["field"] == field {
                let c = v["count"].as_u64().unwrap_or(1) + 1;
                v["count"] = json!(c);
                return;
            }
        }
        self.violations.push(json!({"suite": self.suite.name(), "decoder": decoder, "kind": kind, "field": field,
            "detail": detail, "input": hex::encode(input), "info": extra, "count": 1}));
    }

    /// description of the first field the reference predicates reject: "<index>:<kind>:<class>"
    pub fn first_bad_field(&self, decoder: &str, b: &[u8]) -> String {
        let lay = layout(decoder, &self.lens);
        let total: usize = lay.iter().map(|f| f.1).sum();
        if b.len() != total {
            return if b.len() > total { "length:over".into() } else { "length:under".into() };
        }
        let mut p = 0;
        for (i, (k, n)) in lay.iter().enumerate() {
            let f = &b[p..p + n];
            if !self.field_valid(k, f) {
                return format!("{}:{}:{}", i + 1, k, self.describe_invalid(k, f));
            }
            p += n;
        }
        "none".into()
    }

    fn describe_invalid(&self, kind: &str, f: &[u8]) -> String {
        let (group, what) = match kind {
            "oel" => (self.suite.oprf(), "elem"),
            "osc" => (self.suite.oprf(), "scalar"),
            "kpk" => (self.suite.ke(), "elem"),
            _ => (self.suite.ke(), "scalar"),
        };
        for (label, bytes) in invalid_encodings(group, what, f.len()) {
            if bytes == f {
                return format!("{}/{}", tla_class(group, what, &label), label);
            }
        }
        let nist = !group.starts_with("ristretto255") && group != "Curve25519";
        if nist && what == "elem" && f[0] == 5 {
            return "compact/tag-05".into();
        }
        if nist && what == "elem" && f[0] != 2 && f[0] != 3 {
            return format!("badtag/tag-{:02x}", f[0]);
        }
        "other".into()
    }

    /// compare the real decoder with the oracle on one input
    pub fn check_one(&mut self, decoder: &str, b: &[u8], expect: Option<bool>, info: &Value) {
        crate::watch::context(format!("{} decoder {} on {} bytes {}", self.suite.name(), decoder, b.len(), hex::encode(&b[..b.len().min(48)])));
        self.evals += 1;
        let want = self.oracle(decoder, b);
        if let Some(e) = expect {
            if e != want {
                self.report(decoder, "classifier", format!("abstraction function disagrees with the TLC table (table {e}, reference {want})"), b, info.clone());
                return;
            }
        }
        let suite = self.suite;
        let _running = crate::watch::enter();
        let got = std::panic::catch_unwind(std::panic::AssertUnwindSafe(|| suite.decode(decoder, b)));
        match got {
            Err(_) => self.report(decoder, "panic", "decoder panicked".into(), b, info.clone()),
            Ok(Ok(re)) => {
                self.accepted += 1;
                if !want {
                    let lay = layout(decoder, &self.lens);
                    let total: usize = lay.iter().map(|f| f.1).sum();
                    let kind = if b.len() != total { "accepts-wrong-length" } else { "accepts-invalid-element" };
                    self.report(decoder, kind, format!("decoder accepted {} bytes (fixed length {}); specification rejects", b.len(), total), b, info.clone());
                    if re != b && b.len() == total {
                        // C10 as well: an accepted string that re-encodes differently (a second encoding)
                        self.report(decoder, "non-canonical", "accepted input does not re-encode to itself".into(), b, info.clone());
                    }
                } else if re != b {
                    self.report(decoder, "non-canonical", "accepted input does not re-encode to itself".into(), b, info.clone());
                }
            }
            Ok(Err(_)) => {
                self.rejected += 1;
                if want {
                    self.report(decoder, "rejects-valid", "decoder rejected a valid encoding".into(), b, info.clone());
                }
            }
        }
    }

    /// the same through serde: take the serde encoding of the valid object and substitute the
    /// bytes of one field
    pub fn check_serde(&mut self, decoder: &str, mutated: &[u8], field_off: usize, field_len: usize, info: &Value) {
        let valid = self.valid[decoder].clone();
        for codec in [Codec::Bincode, Codec::Json] {
            let enc = match self.suite.to_serde(decoder, &valid, codec) {
                Ok(e) => e,
                Err(e) => {
                    self.report(decoder, "serde", format!("valid object does not serialize: {e}"), &valid, info.clone());
                    continue;
                }
            };
            let old = &valid[field_off..field_off + field_len];
            let new = &mutated[field_off..field_off + field_len];
            let sub = match codec {
                Codec::Bincode => replace_once(&enc, old, new),
                _ => {
                    let o = json_bytes(old);
                    let n = json_bytes(new);
                    replace_once(&enc, o.as_bytes(), n.as_bytes())
                }
            };
            let Some(sub) = sub else { continue };
            self.evals += 1;
            let want = self.oracle(decoder, mutated);
            let suite = self.suite;
            let _running = crate::watch::enter();
        let got = std::panic::catch_unwind(std::panic::AssertUnwindSafe(|| suite.from_serde(decoder, &sub, codec)));
            match got {
                Err(_) => self.report(decoder, "panic", format!("serde {:?} decoder panicked", codec), mutated, info.clone()),
                Ok(Ok(re)) => {
                    if !want {
                        self.report(decoder, "serde-accepts-invalid-element", format!("serde {:?} decoder accepted an invalid field", codec), mutated, info.clone());
                    } else if re != mutated {
                        self.report(decoder, "non-canonical", format!("serde {:?}: accepted object re-encodes differently", codec), mutated, info.clone());
                    }
                }
                Ok(Err(_)) => {
                    if want {
                        self.report(decoder, "rejects-valid", format!("serde {:?} decoder rejected a valid object", codec), mutated, info.clone());
                    }
                }
            }
        }
    }

    /// concretize one row of the TLC verdict table
    pub fn check_row(&mut self, row: &Value) {
        let decoder = row["T"].as_str().unwrap().to_string();
        let n = row["n"].as_u64().unwrap() as usize;
        let verdict = row["verdict"].as_str().unwrap() == "Ok";
        let cls: Vec<String> = row["cls"].as_array().unwrap().iter().map(|c| c.as_str().unwrap().to_string()).collect();
        let lay = layout(&decoder, &self.lens);
        let total: usize = lay.iter().map(|f| f.1).sum();
        assert_eq!(total, row["total"].as_u64().unwrap() as usize, "layout table of harness and Wire.tla differ");
        let valid = self.valid[decoder.as_str()].clone();
        if valid.len() != total {
            self.report(&decoder, "layout", format!("valid encoding has {} bytes, layout says {}", valid.len(), total), &valid, row.clone());
            return;
        }
        // choose members field by field; vary one non-valid field over all its members
        let mut base = valid.clone();
        let mut off = 0;
        let mut varying: Vec<(usize, usize, Vec<(String, Vec<u8>)>)> = vec![];
        for (i, (k, len)) in lay.iter().enumerate() {
            let ms = self.members(k, &cls[i], &valid[off..off + len]);
            if ms.is_empty() {
                panic!("no member for class {} of {}", cls[i], k);
            }
            base[off..off + len].copy_from_slice(&ms[0].1);
            if ms.len() > 1 {
                varying.push((off, *len, ms));
            }
            off += len;
        }
        let mut inputs: Vec<(Vec<u8>, Option<(usize, usize)>)> = vec![(base.clone(), None)];
        for (o, l, ms) in &varying {
            for m in ms.iter().skip(1) {
                let mut b = base.clone();
                b[*o..*o + *l].copy_from_slice(&m.1);
                inputs.push((b, Some((*o, *l))));
            }
        }
        for (b, _) in inputs {
            // length class: truncate, or extend with several paddings
            let variants: Vec<Vec<u8>> = if n <= total {
                vec![b[..n].to_vec()]
            } else {
                let extra = n - total;
                let mut v = vec![];
                for pad in [0u8, 0xff, 0x02] {
                    let mut x = b.clone();
                    x.extend(std::iter::repeat(pad).take(extra));
                    v.push(x);
                }
                let mut x = b.clone();
                x.extend(b.iter().cycle().take(extra));
                v.push(x);
                v
            };
            for x in variants {
                self.check_one(&decoder, &x, Some(verdict), row);
                if n == total {
                    // C11: the same object through serde -- substitute the one field that differs
                    // from the valid object (none differs: plain round trip)
                    let mut differing = vec![];
                    let mut o = 0;
                    for (_, l) in lay.iter() {
                        if x[o..o + l] != valid[o..o + l] {
                            differing.push((o, *l));
                        }
                        o += l;
                    }
                    if differing.len() <= 1 {
                        let (o, l) = differing.first().copied().unwrap_or((0, lay[0].1));
                        self.check_serde(&decoder, &x, o, l, row);
                    }
                }
            }
        }
    }

    /// classifier-guided inputs beyond the table: all 256 values of the leading byte of every
    /// group field, single-byte substitutions at every offset, random strings, bit flips
    /// The key-pair API (PublicKey / PrivateKey / KeyPair constructors from byte slices) is part
    /// of C12 as well: every length 0..len+8 with several fillings, the valid key truncated and
    /// extended; oracle: exact length and valid by the reference predicate, never a panic.
    pub fn fuzz_keys(&mut self) {
        // key generation and derivation terminate and do not panic (random_sk is the documented way to make a key
        // for ServerSetup::new_with_key); a call that does not return is reported by the watchdog
        for t in 0..4i64 {
            let suite = self.suite;
            crate::watch::context(format!("{} key-pair API: random_sk on tape {}", suite.name(), 8800 + t));
            let _running = crate::watch::enter();
            self.evals += 1;
            let r = std::panic::catch_unwind(std::panic::AssertUnwindSafe(|| suite.ke_random_sk(&mut crate::rng::TapeRng::new(0x5eed, 8800 + t))));
            drop(_running);
            if r.is_err() {
                self.report_key("KeyPair", "panic", "KeGroup::random_sk panicked".into(), &[], json!({"tape": 8800 + t}));
            }
            let nsk = self.lens.nsk;
            for seedb in [vec![0u8; nsk], vec![0xffu8; nsk], (0..nsk).map(|i| (i as u8).wrapping_mul(37).wrapping_add(t as u8)).collect::<Vec<u8>>()] {
                crate::watch::context(format!("{} key-pair API: derive_auth_keypair on seed {}", suite.name(), hex::encode(&seedb)));
                let _running = crate::watch::enter();
                self.evals += 1;
                if std::panic::catch_unwind(std::panic::AssertUnwindSafe(|| suite.ke_derive(&seedb))).is_err() {
                    self.report_key("KeyPair", "panic", "derive_auth_keypair panicked".into(), &seedb, json!({}));
                }
            }
        }
        let l = self.lens;
        let valid_pk = self.valid["RegistrationResponse"][l.noe..].to_vec();
        let valid_sk = self.valid["ServerSetup"][l.nh..l.nh + l.nsk].to_vec();
        for (dec, kind, valid) in [("KePublicKey", "kpk", valid_pk), ("KePrivateKey", "ksk", valid_sk)] {
            let full = valid.len();
            let mut inputs: Vec<Vec<u8>> = Vec::new();
            for n in 0..=full + 8 {
                for fill in [0x00u8, 0x01, 0x02, 0x03, 0x04, 0x05, 0xff] {
                    inputs.push(vec![fill; n]);
                    let mut v = vec![0u8; n];
                    if n > 0 {
                        v[0] = fill;
                    }
                    inputs.push(v);
                }
                let mut v = valid.clone();
                v.resize(n, 0);
                inputs.push(v);
            }
            for b in inputs {
                self.evals += 1;
                let want = b.len() == full && self.field_valid(kind, &b);
                let suite = self.suite;
                let _running = crate::watch::enter();
        let got = std::panic::catch_unwind(std::panic::AssertUnwindSafe(|| suite.decode(dec, &b)));
                let info = json!({"source": "key-pair API", "len": b.len()});
                match got {
                    Err(_) => self.report_key(dec, "panic", "key constructor panicked".into(), &b, info),
                    Ok(Ok(re)) => {
                        self.accepted += 1;
                        if !want && b.len() == full {
                            self.report_key(dec, "accepts-invalid-element", "key constructor accepted an invalid encoding".into(), &b, info);
                        } else if want && re != b {
                            self.report_key(dec, "non-canonical", "accepted key does not re-encode to itself".into(), &b, info);
                        }
                        // (other lengths: the constructors of the NIST groups also take other SEC1 / short
                        //  forms; no listed decoder reaches them with such lengths - an observation, not C10)
                        if dec == "KePrivateKey" && b.len() == full {
                            let _running = crate::watch::enter();
                            let _ = std::panic::catch_unwind(std::panic::AssertUnwindSafe(|| suite.ke_keypair_from_slice(&b)))
                                .map_err(|_| self.report_key(dec, "panic", "KeyPair::from_private_key_slice panicked".into(), &b, json!({})));
                        }
                    }
                    Ok(Err(_)) => {
                        self.rejected += 1;
                        if want {
                            self.report_key(dec, "rejects-valid", "key constructor rejected a valid key".into(), &b, info);
                        }
                    }
                }
            }
        }
    }

    fn report_key(&mut self, decoder: &str, kind: &str, detail: String, input: &[u8], extra: Value) {
        for v in self.violations.iter_mut() {
            if v["decoder"] == decoder && v["kind"] == kind {
                let c = v["count"].as_u64().unwrap_or(1) + 1;
                v["count"] = json!(c);
                return;
            }
        }
        self.violations.push(json!({"suite": self.suite.name(), "decoder": decoder, "kind": kind, "field": "key",
            "detail": detail, "input": hex::encode(input), "info": extra, "count": 1}));
    }

    /// Structure-level mutation of the serde encodings (C10 C12): the table and the byte-level
    /// mutations only vary the CONTENT of fields; here the shape of the encoding itself varies --
    /// JSON arrays with extra / missing elements, out-of-range or wrongly typed numbers, missing or
    /// unknown keys, wrong node kinds; truncated bincode.  Every mutant must be refused or decode
    /// to an object that re-encodes as a valid encoding of the fixed length -- never a panic.
    pub fn fuzz_serde_structure(&mut self) {
        for d in DECODERS {
            let valid = self.valid[d].clone();
            let info = json!({"source": "serde structure mutation"});
            // ---- JSON
            if let Ok(enc) = self.suite.to_serde(d, &valid, Codec::Json) {
                if let Ok(root) = serde_json::from_slice::<Value>(&enc) {
                    let mut paths: Vec<String> = vec![String::new()];
                    collect_paths(&root, String::new(), &mut paths);
                    for path in paths {
                        let node = root.pointer(&path).cloned().unwrap_or(Value::Null);
                        let mut variants: Vec<(Value, bool)> = vec![]; // (replacement, changes the shape of a sequence)
                        match &node {
                            Value::Array(a) => {
                                for extra in [1usize, 2, 31, 300] {
                                    let mut b = a.clone();
                                    for k in 0..extra {
                                        b.push(json!((k * 37 % 256) as u8));
                                    }
                                    variants.push((Value::Array(b), true));
                                }
                                for cut in [1usize, 2, a.len() / 2, a.len()] {
                                    if cut >= 1 && cut <= a.len() {
                                        variants.push((Value::Array(a[..a.len() - cut].to_vec()), true));
                                    }
                                }
                                variants.push((Value::Array(vec![Value::Array(a.clone())]), true));
                                variants.push((json!({"0": a}), true));
                                if let Some(f) = a.first() {
                                    if f.is_number() {
                                        for bad in [json!(256), json!(-1), json!(1.5), json!("7"), Value::Null, json!(true), json!([]), json!(1u64 << 40)] {
                                            for pos in [0usize, a.len() - 1] {
                                                let mut b = a.clone();
                                                b[pos] = bad.clone();
                                                variants.push((Value::Array(b), true));
                                            }
                                        }
                                    }
                                }
                            }
                            Value::Object(m) => {
                                for k in m.keys() {
                                    let mut n = m.clone();
                                    n.remove(k);
                                    variants.push((Value::Object(n), true));
                                }
                                let mut n = m.clone();
                                n.insert("zz_unknown".into(), json!([1, 2, 3]));
                                variants.push((Value::Object(n), false));
                                variants.push((Value::Array(m.values().cloned().collect()), false));
                            }
                            _ => continue,
                        }
                        for bad in [Value::Null, json!(0), json!(""), json!([]), json!({})] {
                            variants.push((bad, true));
                        }
                        for (rep, shape) in variants {
                            let mut m = root.clone();
                            if path.is_empty() {
                                m = rep;
                            } else if let Some(slot) = m.pointer_mut(&path) {
                                *slot = rep;
                            }
                            let text = serde_json::to_vec(&m).unwrap();
                            self.evals += 1;
                            let suite = self.suite;
                            let _running = crate::watch::enter();
        let got = std::panic::catch_unwind(std::panic::AssertUnwindSafe(|| suite.from_serde(d, &text, Codec::Json)));
                            match got {
                                Err(_) => self.report(d, "panic", format!("serde Json decoder panicked on a structurally altered encoding (node '{}')", path), &text, info.clone()),
                                Ok(Ok(re)) => {
                                    if shape && re != valid {
                                        self.report(d, "accepts-wrong-length", format!("serde Json decoder accepted a structurally altered encoding (node '{}') as a different object", path), &text, info.clone());
                                    }
                                }
                                Ok(Err(_)) => {}
                            }
                        }
                    }
                }
            }
            // ---- bincode: every proper prefix must be refused
            if let Ok(enc) = self.suite.to_serde(d, &valid, Codec::Bincode) {
                for n in 0..enc.len() {
                    self.evals += 1;
                    let suite = self.suite;
                    let cut = enc[..n].to_vec();
                    let _running = crate::watch::enter();
        let got = std::panic::catch_unwind(std::panic::AssertUnwindSafe(|| suite.from_serde(d, &cut, Codec::Bincode)));
                    match got {
                        Err(_) => self.report(d, "panic", "serde Bincode decoder panicked on a truncated encoding".into(), &cut, info.clone()),
                        Ok(Ok(_)) => self.report(d, "accepts-wrong-length", format!("serde Bincode decoder accepted a truncated encoding ({} of {} bytes)", n, enc.len()), &cut, info.clone()),
                        Ok(Err(_)) => {}
                    }
                }
                // a length prefix (if the format has one) blown up
                for pos in 0..enc.len().min(16) {
                    let mut b = enc.clone();
                    b[pos] = 0xff;
                    self.evals += 1;
                    let suite = self.suite;
                    let _running = crate::watch::enter();
                    if std::panic::catch_unwind(std::panic::AssertUnwindSafe(|| suite.from_serde(d, &b, Codec::Bincode))).is_err() {
                        self.report(d, "panic", "serde Bincode decoder panicked".into(), &b, info.clone());
                    }
                }
            }
        }
    }

    pub fn fuzz(&mut self, seed: u64, per_decoder: usize) {
        self.fuzz_keys();
        self.fuzz_serde_structure();
        let mut rng = crate::record::Prng(seed ^ 0x5eed);
        for d in DECODERS {
            let valid = self.valid[d].clone();
            let lay = layout(d, &self.lens);
            let info = json!({"source": "classifier-guided mutation"});
            let mut off = 0;
            for (k, len) in &lay {
                if *k != "b" {
                    for v in 0..=255u8 {
                        let mut b = valid.clone();
                        b[off] = v;
                        self.check_one(d, &b, None, &info);
                        let mut b = valid.clone();
                        b[off + len - 1] = v;
                        self.check_one(d, &b, None, &info);
                    }
                }
                off += len;
            }
            for o in 0..valid.len() {
                for m in [0x01u8, 0x80, 0xff] {
                    let mut b = valid.clone();
                    b[o] ^= m;
                    self.check_one(d, &b, None, &info);
                }
            }
            // one byte INSERTED or DELETED anywhere (the length is off by one and everything behind the
            // position moves): at every field boundary all 256 values, at every other offset a few
            {
                let mut bounds: Vec<usize> = vec![0];
                let mut p = 0;
                for (_, len) in &lay {
                    p += len;
                    bounds.push(p);
                }
                for o in 0..=valid.len() {
                    let vals: Vec<u8> = if bounds.contains(&o) { (0..=255u8).collect() } else { vec![0x00, 0x01, 0x02, 0x80, 0xff] };
                    for v in vals {
                        let mut b = valid.clone();
                        b.insert(o, v);
                        self.check_one(d, &b, None, &info);
                    }
                    if o < valid.len() {
                        let mut b = valid.clone();
                        b.remove(o);
                        self.check_one(d, &b, None, &info);
                    }
                }
            }
            for _ in 0..per_decoder {
                let mut b = valid.clone();
                match rng.below(5) {
                    0 => {
                        let n = rng.below(b.len() + 70);
                        b = (0..n).map(|_| rng.next() as u8).collect();
                    }
                    1 => {
                        let k = 1 + rng.below(4);
                        for _ in 0..k {
                            let bit = rng.below(b.len() * 8);
                            b[bit / 8] ^= 1 << (bit % 8);
                        }
                    }
                    2 => {
                        let n = rng.below(b.len() + 1);
                        b.truncate(n);
                    }
                    3 => {
                        let n = 1 + rng.below(64);
                        for _ in 0..n {
                            b.push(rng.next() as u8);
                        }
                    }
                    _ => {
                        // splice a field of another decoder's valid encoding in
                        let other = self.valid[DECODERS[rng.below(DECODERS.len())]].clone();
                        let at = rng.below(b.len());
                        let n = rng.below(other.len()).min(b.len() - at);
                        let from = rng.below(other.len() - n + 1);
                        b[at..at + n].copy_from_slice(&other[from..from + n]);
                    }
                }
                self.check_one(d, &b, None, &info);
            }
        }
    }
}

fn collect_paths(v: &Value, at: String, out: &mut Vec<String>) {
    match v {
        Value::Array(a) => {
            for (i, x) in a.iter().enumerate() {
                if x.is_array() || x.is_object() {
                    let p = format!("{at}/{i}");
                    out.push(p.clone());
                    collect_paths(x, p, out);
                }
            }
        }
        Value::Object(m) => {
            for (k, x) in m {
                if x.is_array() || x.is_object() {
                    let p = format!("{at}/{}", k.replace('~', "~0").replace('/', "~1"));
                    out.push(p.clone());
                    collect_paths(x, p, out);
                }
            }
        }
        _ => {}
    }
}

fn replace_once(hay: &[u8], old: &[u8], new: &[u8]) -> Option<Vec<u8>> {
    if old.is_empty() {
        return None;
    }
    let pos: Vec<usize> = hay.windows(old.len()).enumerate().filter(|(_, w)| *w == old).map(|(i, _)| i).collect();
    if pos.len() != 1 {
        return None;
    }
    let mut v = hay[..pos[0]].to_vec();
    v.extend_from_slice(new);
    v.extend_from_slice(&hay[pos[0] + old.len()..]);
    Some(v)
}
fn json_bytes(b: &[u8]) -> String {
    let s: Vec<String> = b.iter().map(|x| x.to_string()).collect();
    format!("[{}]", s.join(","))
}

//! Concrete members of the abstract input classes of spec/Wire.tla, and the abstraction
//! function (classifier) from concrete bytes to classes, written on the reference predicates
//! of refgroup.rs (never on opaque-ke's own decoders).
use crate::refgroup::{self, HashKind};

fn be_inc(mut v: Vec<u8>) -> Vec<u8> {
    for b in v.iter_mut().rev() {
        let (n, c) = b.overflowing_add(1);
        *b = n;
        if !c {
            break;
        }
    }
    v
}
fn le_inc(mut v: Vec<u8>) -> Vec<u8> {
    for b in v.iter_mut() {
        let (n, c) = b.overflowing_add(1);
        *b = n;
        if !c {
            break;
        }
    }
    v
}

/// Invalid encodings of a group element ("elem") or scalar ("scalar") of the named group
/// (an OPRF suite id or a KE group name), each labelled with its class.  Every member is
/// checked against the reference predicate when it is generated.
pub fn invalid_encodings(group: &str, what: &str, len: usize) -> Vec<(String, Vec<u8>)> {
    let mut v: Vec<(String, Vec<u8>)> = Vec::new();
    let rist = group.starts_with("ristretto255");
    let x = group == "Curve25519";
    if what == "elem" {
        if rist {
            v.push(("identity".into(), vec![0u8; 32]));
            // s = p (non-canonical field element), s = 2^255 - 1
            let mut p = vec![0xffu8; 32];
            p[0] = 0xed;
            p[31] = 0x7f;
            v.push(("noncanonical-s-eq-p".into(), p.clone()));
            v.push(("noncanonical-s-ge-p".into(), { let mut q = vec![0xffu8; 32]; q[31] = 0x7f; q }));
            v.push(("high-bit-set".into(), { let mut q = vec![0u8; 32]; q[31] = 0x80; q }));
            // negative s (odd)
            v.push(("negative-s".into(), { let mut q = vec![0u8; 32]; q[0] = 1; q }));
            // non-square: search
            let k = refgroup::RistKe;
            let mut found = 0;
            let mut i = 0u32;
            while found < 3 {
                let mut b = HashKind::Sha256.hash(&[b"nonsquare", &i.to_be_bytes()]);
                b[31] &= 0x3f;
                b[0] &= 0xfe;
                use refgroup::RefKe;
                if !k.pk_valid(&b) {
                    v.push((format!("nonsquare-{found}"), b));
                    found += 1;
                }
                i += 1;
            }
        } else if x {
            let hexes = [
                ("zero", "0000000000000000000000000000000000000000000000000000000000000000"),
                ("small-order-u1", "0100000000000000000000000000000000000000000000000000000000000000"),
                ("small-order-8a", "e0eb7a7c3b41b8ae1656e3faf19fc46ada098deb9c32b1fd866205165f49b800"),
                ("small-order-8b", "5f9c95bca3508c24b1d0b1559c83ef5b04445cc4581c8e86d8224eddd09f1157"),
                ("small-order-p-1", "ecffffffffffffffffffffffffffffffffffffffffffffffffffffffffffff7f"),
                ("zero-nonreduced-p", "edffffffffffffffffffffffffffffffffffffffffffffffffffffffffffff7f"),
                ("small-order-nonreduced-p+1", "eeffffffffffffffffffffffffffffffffffffffffffffffffffffffffffff7f"),
                ("zero-highbit", "0000000000000000000000000000000000000000000000000000000000000080"),
                ("small-order-u1-highbit", "0100000000000000000000000000000000000000000000000000000000000080"),
                ("small-order-8a-highbit", "e0eb7a7c3b41b8ae1656e3faf19fc46ada098deb9c32b1fd866205165f49b880"),
                ("small-order-8b-highbit", "5f9c95bca3508c24b1d0b1559c83ef5b04445cc4581c8e86d8224eddd09f11d7"),
                ("small-order-p-1-highbit", "ecffffffffffffffffffffffffffffffffffffffffffffffffffffffffffffff"),
                ("zero-nonreduced-p-highbit", "edffffffffffffffffffffffffffffffffffffffffffffffffffffffffffffff"),
                ("small-order-nonreduced-p+1-highbit", "eeffffffffffffffffffffffffffffffffffffffffffffffffffffffffffffff"),
            ];
            for (n, h) in hexes {
                v.push((n.into(), hex::decode(h).unwrap()));
            }
        } else {
            // NIST compressed points
            v.push(("all-zero".into(), vec![0u8; len]));
            let k = refgroup::ke_by_name(match len {
                33 => "P-256",
                49 => "P-384",
                _ => "P-521",
            });
            // a valid point, then alter the tag
            let good = refgroup::fresh_kpk(k.as_ref(), 7);
            for tag in [0u8, 1, 4, 5, 6, 7, 0xff] {
                let mut b = good.clone();
                b[0] = tag;
                v.push((format!("tag-{tag:02x}"), b));
            }
            // x not on the curve: search
            let mut found = 0;
            let mut i = 0u32;
            while found < 3 {
                let mut b = vec![2u8];
                let mut body = Vec::new();
                let mut c = 0u8;
                while body.len() < len - 1 {
                    body.extend_from_slice(&HashKind::Sha512.hash(&[b"offcurve", &i.to_be_bytes(), &[c]]));
                    c += 1;
                }
                body.truncate(len - 1);
                if len == 67 {
                    body[0] &= 0x01;
                }
                b.extend_from_slice(&body);
                if !k.pk_valid(&b) {
                    v.push((format!("x-not-on-curve-{found}"), b));
                    found += 1;
                }
                i += 1;
            }
            // x >= p
            let mut b = vec![0xffu8; len];
            b[0] = 2;
            v.push(("x-ge-p-allff".into(), b));
            if len == 67 {
                // 521 bits: x = 2^521 - 1 = p  (top byte 0x01, rest ff)
                let mut b = vec![0xffu8; len];
                b[0] = 3;
                b[1] = 0x01;
                v.push(("x-eq-p".into(), b));
                let mut b = vec![0xffu8; len];
                b[0] = 2;
                b[1] = 0x02;
                v.push(("x-bit-521-set".into(), b));
            }
        }
        let ok: Box<dyn Fn(&[u8]) -> bool> = if rist || x || !group.contains("SHA") {
            let k = refgroup::ke_by_name(if rist { "ristretto255" } else { group });
            Box::new(move |b| k.pk_valid(b))
        } else {
            let o = refgroup::oprf_by_name(group);
            Box::new(move |b| o.elem_valid(b))
        };
        for (n, b) in &v {
            assert!(!ok(b), "reference accepts invalid-class member {n}");
            assert_eq!(b.len(), len);
        }
    } else {
        v.push(("zero".into(), vec![0u8; len]));
        if rist {
            let l = hex::decode("edd3f55c1a631258d69cf7a2def9de1400000000000000000000000000000010").unwrap();
            v.push(("eq-order".into(), l.clone()));
            v.push(("order-plus-1".into(), le_inc(l)));
            v.push(("all-ff".into(), vec![0xffu8; 32]));
            v.push(("high-bit".into(), { let mut q = vec![0u8; 32]; q[31] = 0x80; q[0] = 1; q }));
        } else if x {
            v.push(("unclamped-1".into(), { let mut q = vec![0u8; 32]; q[0] = 1; q }));
            v.push(("unclamped-allff".into(), vec![0xffu8; 32]));
            v.push(("unclamped-lowbits".into(), { let mut q = vec![0x40u8; 32]; q[0] = 0x47; q }));
            v.push(("unclamped-bit254-clear".into(), { let mut q = vec![0x08u8; 32]; q[31] = 0x08; q }));
        } else {
            let k = refgroup::ke_by_name(match len {
                32 => "P-256",
                48 => "P-384",
                _ => "P-521",
            });
            let nm1 = k.extreme_sks()[1].clone();
            v.push(("eq-order".into(), be_inc(nm1.clone())));
            v.push(("order-plus-1".into(), be_inc(be_inc(nm1))));
            v.push(("all-ff".into(), vec![0xffu8; len]));
        }
        let ok: Box<dyn Fn(&[u8]) -> bool> = if group.contains("SHA") {
            let o = refgroup::oprf_by_name(group);
            Box::new(move |b| o.scalar_valid(b))
        } else {
            let k = refgroup::ke_by_name(group);
            Box::new(move |b| k.sk_valid(b))
        };
        for (n, b) in &v {
            assert!(!ok(b), "reference accepts invalid scalar member {n}");
            assert_eq!(b.len(), len);
        }
    }
    v
}

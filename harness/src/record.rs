//! Direction B (code -> specification): drivers that exercise the real API and record the
//! execution in the shared event alphabet, for validation by TLC against OpaqueTrace.tla.
use crate::conc::Profile;
use crate::suite::{Res, Suite};
use crate::world::World;
use serde_json::{json, Value};
use std::io::Write;

pub struct Prng(pub u64);
impl Prng {
    pub fn next(&mut self) -> u64 {
        // splitmix64
        self.0 = self.0.wrapping_add(0x9e3779b97f4a7c15);
        let mut z = self.0;
        z = (z ^ (z >> 30)).wrapping_mul(0xbf58476d1ce4e5b9);
        z = (z ^ (z >> 27)).wrapping_mul(0x94d049bb133111eb);
        z ^ (z >> 31)
    }
    pub fn below(&mut self, n: usize) -> usize {
        (self.next() % (n.max(1) as u64)) as usize
    }
    pub fn chance(&mut self, pct: u64) -> bool {
        self.next() % 100 < pct
    }
    pub fn pick<'a, T>(&mut self, v: &'a [T]) -> Option<&'a T> {
        if v.is_empty() {
            None
        } else {
            Some(&v[self.below(v.len())])
        }
    }
}

#[derive(Clone)]
struct RegS {
    id: i64,
    pw: i64,
    req: i64,
    done: bool,
}
#[derive(Clone)]
struct CliS {
    id: i64,
    pw: i64,
    req: [i64; 3],
    done: bool,
}
#[derive(Clone)]
struct SrvS {
    id: i64,
    done: bool,
    resp: [i64; 6],
    client: Option<i64>,
}

/// Book-keeping of one recorded segment (between two Reset events)
pub struct Recorder<'a> {
    pub w: World<'a>,
    pub events: Vec<Value>,
    pub problems: Vec<(usize, String)>,
    tape: i64,
    setups: Vec<i64>,
    regs: Vec<RegS>,
    regresps: Vec<(i64, [i64; 2], i64)>, // (reg id, [eval, spk], cid)
    uploads: Vec<[i64; 4]>,
    files: Vec<(i64, [i64; 4], i64)>, // (file id, rec, cid atom)
    clis: Vec<CliS>,
    srvs: Vec<SrvS>,
    fins: Vec<(i64, i64)>, // (fin id, client)
    next_reg: i64,
    next_file: i64,
    next_cli: i64,
    next_srv: i64,
    pub limits: (i64, i64, i64, i64, i64),
    /// percentage of steps that use a parameter longer than 65535 bytes (C12)
    pub long_pct: u64,
}

impl<'a> Recorder<'a> {
    pub fn new(suite: &'a dyn Suite, run_seed: u64, profile: Profile) -> Self {
        Recorder {
            w: World::new(suite, run_seed, profile),
            events: vec![],
            problems: vec![],
            tape: 0,
            setups: vec![],
            regs: vec![],
            regresps: vec![],
            uploads: vec![],
            files: vec![],
            clis: vec![],
            srvs: vec![],
            fins: vec![],
            next_reg: 1,
            next_file: 1,
            next_cli: 1,
            next_srv: 1,
            limits: (4, 16, 16, 32, 64),
            long_pct: 0,
        }
    }
    pub fn fresh_tape(&mut self) -> i64 {
        self.tape += 1;
        self.tape
    }
    pub fn reset(&mut self) {
        self.emit(json!({"ev": "Reset"}));
        self.setups.clear();
        self.regs.clear();
        self.regresps.clear();
        self.uploads.clear();
        self.files.clear();
        self.clis.clear();
        self.srvs.clear();
        self.fins.clear();
        self.next_reg = 1;
        self.next_file = 1;
        self.next_cli = 1;
        self.next_srv = 1;
    }
    /// execute + log; returns (res, out ids)
    pub fn emit(&mut self, e: Value) -> (Res, Vec<i64>) {
        let (e2, o) = self.w.record(e);
        for p in &o.problems {
            self.problems.push((self.events.len(), p.clone()));
        }
        if let Res::Panic(m) = &o.res {
            self.problems.push((self.events.len(), format!("panic: {m}")));
        }
        let out: Vec<i64> = e2["out"].as_array().unwrap().iter().map(|x| x.as_i64().unwrap()).collect();
        self.events.push(e2);
        (o.res, out)
    }

    // ---- honest building blocks --------------------------------------------------------
    pub fn setup_new(&mut self) -> i64 {
        let id = self.setups.len() as i64 + 1;
        let t = self.fresh_tape();
        self.emit(json!({"ev": "SetupNew", "id": id, "tape": t}));
        self.setups.push(id);
        id
    }
    pub fn reg_start(&mut self, pw: i64) -> i64 {
        let id = self.next_reg;
        self.next_reg += 1;
        let t = self.fresh_tape();
        let (r, out) = self.emit(json!({"ev": "CRegStart", "id": id, "pw": -(pw + 1), "tape": t}));
        // (an implementation may refuse an over-long password at start already: nothing to continue with)
        let started = r == Res::Ok && !out.is_empty();
        self.regs.push(RegS { id, pw, req: if started { out[0] } else { 0 }, done: !started });
        id
    }
    pub fn sreg_start(&mut self, s: i64, req: i64, cid: i64, reg: i64) -> Option<[i64; 2]> {
        let (r, out) = self.emit(json!({"ev": "SRegStart", "id": s, "req": req, "cid": -(cid + 1)}));
        if r == Res::Ok {
            self.regresps.push((reg, [out[0], out[1]], cid));
            Some([out[0], out[1]])
        } else {
            None
        }
    }
    #[allow(clippy::too_many_arguments)]
    pub fn reg_finish(&mut self, reg: i64, pw: i64, msg: [i64; 2], idu: i64, ids: i64, ksf: i64, ksffail: bool) -> Option<[i64; 4]> {
        let t = self.fresh_tape();
        let (r, out) = self.emit(json!({"ev": "CRegFinish", "id": reg, "pw": -(pw + 1), "msg": msg,
            "idu": idu, "ids": ids, "ksf": ksf, "ksffail": ksffail, "tape": t}));
        if let Some(x) = self.regs.iter_mut().find(|x| x.id == reg) {
            x.done = true;
        }
        if r == Res::Ok {
            let u = [out[0], out[1], out[2], out[3]];
            self.uploads.push(u);
            Some(u)
        } else {
            None
        }
    }
    pub fn sreg_finish(&mut self, rec: [i64; 4], cid: i64) -> Option<i64> {
        let id = self.next_file;
        let (r, _) = self.emit(json!({"ev": "SRegFinish", "id": id, "msg": rec}));
        if r == Res::Ok {
            self.next_file += 1;
            self.files.push((id, rec, cid));
            Some(id)
        } else {
            None
        }
    }
    /// complete honest registration; returns the file record
    pub fn register(&mut self, s: i64, pw: i64, cid: i64, idu: i64, ids: i64, ksf: i64) -> Option<[i64; 4]> {
        let reg = self.reg_start(pw);
        let req = self.regs.last().unwrap().req;
        if req == 0 {
            return None;
        }
        let resp = self.sreg_start(s, req, cid, reg)?;
        let up = self.reg_finish(reg, pw, resp, idu, ids, ksf, false)?;
        self.sreg_finish(up, cid)?;
        Some(up)
    }
    pub fn cli_start(&mut self, pw: i64) -> i64 {
        let id = self.next_cli;
        self.next_cli += 1;
        let t = self.fresh_tape();
        let (r, out) = self.emit(json!({"ev": "CLogStart", "id": id, "pw": -(pw + 1), "tape": t}));
        if r == Res::Ok && out.len() >= 3 {
            self.clis.push(CliS { id, pw, req: [out[0], out[1], out[2]], done: false });
        }
        id
    }
    #[allow(clippy::too_many_arguments)]
    pub fn srv_start(&mut self, s: i64, rec: Option<[i64; 4]>, req: [i64; 3], cid: i64, ctx: i64, idu: i64, ids: i64, client: Option<i64>, extfail: bool) -> Option<(i64, [i64; 6])> {
        let id = self.next_srv;
        self.next_srv += 1;
        let t = self.fresh_tape();
        let recv: Vec<i64> = rec.map(|r| r.to_vec()).unwrap_or_default();
        let (r, out) = self.emit(json!({"ev": "SLogStart", "id": id, "s": s, "rec": recv, "msg": req,
            "cid": -(cid + 1), "ctx": ctx, "idu": idu, "ids": ids, "tape": t, "extfail": extfail}));
        if r == Res::Ok {
            let resp = [out[0], out[1], out[2], out[3], out[4], out[5]];
            self.srvs.push(SrvS { id, done: false, resp, client });
            Some((id, resp))
        } else {
            None
        }
    }
    #[allow(clippy::too_many_arguments)]
    pub fn cli_finish(&mut self, c: i64, pw: i64, resp: [i64; 6], ctx: i64, idu: i64, ids: i64, ksf: i64, ksffail: bool) -> (Res, Option<i64>) {
        let (r, out) = self.emit(json!({"ev": "CLogFinish", "id": c, "pw": -(pw + 1), "msg": resp, "ctx": ctx,
            "idu": idu, "ids": ids, "ksf": ksf, "ksffail": ksffail}));
        if let Some(x) = self.clis.iter_mut().find(|x| x.id == c) {
            x.done = true;
        }
        if r == Res::Ok {
            self.fins.push((out[0], c));
            (r, Some(out[0]))
        } else {
            (r, None)
        }
    }
    pub fn srv_finish(&mut self, j: i64, fin: i64) -> Res {
        let (r, _) = self.emit(json!({"ev": "SLogFinish", "id": j, "msg": [fin]}));
        if let Some(x) = self.srvs.iter_mut().find(|x| x.id == j) {
            x.done = true;
        }
        r
    }
    /// derive a new value from an existing one by flipping one bit (or make a fresh one)
    pub fn mutate(&mut self, src: i64, field: &str, rng: &mut Prng) -> Option<i64> {
        let mut b = self.w.intern.get(src as usize)?.clone();
        if b.is_empty() {
            return None;
        }
        let bit = rng.below(b.len() * 8);
        b[bit / 8] ^= 1 << (bit % 8);
        if self.w.intern.lookup(&b).is_some() {
            return None;
        }
        let cls = self.classify(field, &b);
        let (_, out) = self.emit(json!({"ev": "Mut", "field": field, "cls": cls, "bytes": hex::encode(&b)}));
        Some(out[0])
    }
    pub fn inject(&mut self, field: &str, bytes: Vec<u8>) -> Option<i64> {
        if self.w.intern.lookup(&bytes).is_some() {
            return None;
        }
        let cls = self.classify(field, &bytes);
        let (_, out) = self.emit(json!({"ev": "Mut", "field": field, "cls": cls, "bytes": hex::encode(&bytes)}));
        Some(out[0])
    }
    /// the abstraction function for adversary-made field values: reference predicates only
    pub fn classify(&self, field: &str, b: &[u8]) -> &'static str {
        let ok = match field {
            "blinded" | "eval" => self.w.refoprf.elem_valid(b),
            "cepk" | "sepk" | "cpk" | "spk" => self.w.refke.pk_valid(b),
            "ssk" | "fsk" => self.w.refke.sk_valid(b),
            _ => true,
        };
        if ok {
            "valid"
        } else {
            "invalid"
        }
    }

    // ---- a random history ----------------------------------------------------------------
    /// Random multi-user history with an adversarial network: `steps` protocol steps.
    /// C15 driver: instance matrix incl. failing instances (ksffail) on real KSFs
    pub fn ksf_segment(&mut self, rng: &mut Prng) {
        let s = self.setup_new();
        let argon = self.w.suite.ksf_kind() == "argon2";
        // ksf parameter: 0 absent, 1 explicit default, k >= 2 instance k-1 (Argon2: 2 other cost, 4 / 5 keyed with
        // two secrets, 6 other variant and version, 7 / 8 keyed with an explicit 32-byte output length)
        let insts: Vec<i64> = if argon { vec![0, 1, 2, 4, 5, 6, 7, 8] } else { vec![0, 1, 2, 3] };
        // an Argon2 instance with an explicit output length fails by itself unless the OPRF hash has that length
        let nh = self.w.lens.nh;
        let self_failing = |k: i64| argon && (k == 7 || k == 8) && nh != 32;
        for (u, kreg) in insts.iter().enumerate() {
            let cid = 10 + u as i64;
            if self.next_reg > self.limits.1 - 1 {
                break;
            }
            if self_failing(*kreg) {
                // registration under the failing instance: an error, nothing stored
                let reg = self.reg_start(1);
                let req = self.regs.last().unwrap().req;
                if let Some(resp) = self.sreg_start(s, req, cid, reg) {
                    self.reg_finish(reg, 1, resp, 0, 0, *kreg, true);
                }
                continue;
            }
            let Some(rec) = self.register(s, 1, cid, 0, 0, *kreg) else { continue };
            for klog in &insts {
                if argon && rng.chance(55) {
                    continue;
                }
                // stay inside the id ranges of the trace specification's configuration
                if self.next_cli > self.limits.3 || self.next_srv > self.limits.4 {
                    break;
                }
                let c = self.cli_start(1);
                let req = self.clis.last().unwrap().req;
                if let Some((j, resp)) = self.srv_start(s, Some(rec), req, cid, 0, 0, 0, Some(c), false) {
                    // only the instrumented KSF can be MADE to fail; an Argon2 instance may fail by itself
                    let fail = (!argon && rng.chance(15)) || self_failing(*klog);
                    let (r, fin) = self.cli_finish(c, 1, resp, 0, 0, 0, *klog, fail);
                    if let (Res::Ok, Some(f)) = (r, fin) {
                        self.srv_finish(j, f);
                    }
                }
            }
        }
        // a failing KSF at registration
        if self.next_reg > self.limits.1 {
            return;
        }
        let reg = self.reg_start(1);
        let req = self.regs.last().unwrap().req;
        if let Some(resp) = self.sreg_start(s, req, 15, reg) {
            self.reg_finish(reg, 1, resp, 0, 0, 2, !argon);
        }
    }

    pub fn random_segment(&mut self, rng: &mut Prng, steps: usize, adversarial_pct: u64) {
        let ns = 1 + rng.below(2);
        for _ in 0..ns {
            self.setup_new();
        }
        let pws = [1i64, 2, 3];
        let cids = [10i64, 11, 12];
        let ctxs = [0i64, -21, -22]; // encoded: absent, ctx atoms 20, 21
        let idsl = [0i64, -31, -32];
        // users
        let nu = 1 + rng.below(3);
        let mut users: Vec<(i64, i64, i64, i64, i64)> = vec![]; // (pw, cid, setup, idu, ids)
        for u in 0..nu {
            let s = self.setups[rng.below(self.setups.len())];
            let pw = pws[rng.below(pws.len())];
            let cid = cids[u % cids.len()];
            let mut idu = idsl[rng.below(idsl.len())];
            let mut ids = idsl[rng.below(idsl.len())];
            let mut pw = pw;
            if rng.chance(self.long_pct) {
                match rng.below(3) {
                    0 => idu = -93,
                    1 => ids = -94,
                    _ => pw = 94,
                }
            }
            if self.register(s, pw, cid, idu, ids, 0).is_some() {
                users.push((pw, cid, s, idu, ids));
            }
        }
        for _ in 0..steps {
            let adv = rng.chance(adversarial_pct);
            match rng.below(10) {
                0 | 1 => {
                    if self.next_cli <= self.limits.3 {
                        let pw = if adv || users.is_empty() { pws[rng.below(3)] } else { users[rng.below(users.len())].0 };
                        self.cli_start(pw);
                    }
                }
                2 | 3 | 4 => {
                    if self.next_srv <= self.limits.4 && !self.clis.is_empty() && !users.is_empty() {
                        let c = self.clis[rng.below(self.clis.len())].clone();
                        let fi = rng.below(self.files.len().max(1));
                        let (rec, cid) = if self.files.is_empty() || (adv && rng.chance(30)) {
                            (None, cids[rng.below(3)])
                        } else {
                            let f = &self.files[fi];
                            (Some(f.1), if adv && rng.chance(30) { cids[rng.below(3)] } else { f.2 })
                        };
                        let u = users[fi.min(users.len() - 1)];
                        let s = if adv && rng.chance(20) { self.setups[rng.below(self.setups.len())] } else { u.2 };
                        let mut ctx = ctxs[rng.below(ctxs.len())];
                        let (mut idu, mut ids) = if adv && rng.chance(40) {
                            (idsl[rng.below(3)], idsl[rng.below(3)])
                        } else {
                            (u.3, u.4)
                        };
                        if rng.chance(self.long_pct) {
                            match rng.below(3) {
                                0 => ctx = -92,
                                1 => idu = -93,
                                _ => ids = -94,
                            }
                        }
                        self.srv_start(s, rec, c.req, cid, ctx, idu, ids, Some(c.id), false);
                    }
                }
                5 | 6 | 7 => {
                    let open: Vec<CliS> = self.clis.iter().filter(|c| !c.done).cloned().collect();
                    if let (Some(c), false) = (rng.pick(&open).cloned(), self.srvs.is_empty()) {
                        // honest: the response made for this client's request; adversarial: any
                        let mine: Vec<SrvS> = self.srvs.iter().filter(|s| s.client == Some(c.id)).cloned().collect();
                        let sv = if adv || mine.is_empty() {
                            self.srvs[rng.below(self.srvs.len())].clone()
                        } else {
                            mine[rng.below(mine.len())].clone()
                        };
                        let mut resp = sv.resp;
                        if adv && rng.chance(40) {
                            let fields = ["eval", "mn", "masked", "snonce", "sepk", "mac"];
                            let k = rng.below(6);
                            if rng.chance(50) {
                                if let Some(v) = self.mutate(resp[k], fields[k], rng) {
                                    resp[k] = v;
                                }
                            } else {
                                let other = self.srvs[rng.below(self.srvs.len())].resp;
                                resp[k] = other[k];
                            }
                        }
                        let ctx = ctxs[rng.below(ctxs.len())];
                        let u = users.iter().find(|u| u.0 == c.pw).copied().unwrap_or(users.first().copied().unwrap_or((1, 10, 1, 0, 0)));
                        let (idu, ids) = if adv && rng.chance(30) { (idsl[rng.below(3)], idsl[rng.below(3)]) } else { (u.3, u.4) };
                        let mut pw = if adv && rng.chance(20) { pws[rng.below(3)] } else { c.pw };
                        let (mut ctx, mut idu, mut ids) = (ctx, idu, ids);
                        if rng.chance(self.long_pct) {
                            match rng.below(4) {
                                0 => ctx = -92,
                                1 => idu = -93,
                                2 => ids = -94,
                                _ => pw = 94,
                            }
                        }
                        self.cli_finish(c.id, pw, resp, ctx, idu, ids, 0, false);
                    }
                }
                _ => {
                    let open: Vec<SrvS> = self.srvs.iter().filter(|s| !s.done).cloned().collect();
                    if let (Some(sv), false) = (rng.pick(&open).cloned(), self.fins.is_empty()) {
                        let mine: Vec<(i64, i64)> = self.fins.iter().filter(|f| Some(f.1) == sv.client).cloned().collect();
                        let mut fin = if adv || mine.is_empty() { self.fins[rng.below(self.fins.len())].0 } else { mine[rng.below(mine.len())].0 };
                        if adv && rng.chance(30) {
                            if let Some(v) = self.mutate(fin, "fin", rng) {
                                fin = v;
                            }
                        }
                        self.srv_finish(sv.id, fin);
                    }
                }
            }
            if rng.chance(6) {
                self.random_reload(rng);
            }
        }
    }

    pub fn random_reload(&mut self, rng: &mut Prng) {
        let codecs = ["native", "bincode", "json"];
        let codec = codecs[rng.below(3)];
        let mut cands: Vec<(&str, i64)> = vec![];
        for s in &self.setups {
            cands.push(("setup", *s));
        }
        for f in &self.files {
            cands.push(("file", f.0));
        }
        for c in self.clis.iter().filter(|c| !c.done) {
            cands.push(("cli", c.id));
        }
        for s in self.srvs.iter().filter(|s| !s.done) {
            cands.push(("srv", s.id));
        }
        if let Some((k, id)) = rng.pick(&cands).cloned() {
            self.emit(json!({"ev": "Reload", "kind": k, "id": id, "codec": codec}));
        }
    }

    pub fn write(&self, path: &str) {
        let mut f = std::io::BufWriter::new(std::fs::File::create(path).unwrap());
        for e in &self.events {
            writeln!(f, "{}", serde_json::to_string(e).unwrap()).unwrap();
        }
    }
}

//! Caller-supplied randomness: seedable, recording tapes.
//!
//! A tape is a ChaCha20 stream keyed by (run seed, tape id).  The recording wrapper logs
//! (offset, length) of every draw so that C17 experiments can build tapes that agree with
//! another tape up to a byte position, and so that the harness can tell whether an operation
//! touched its generator at all.
use rand::{CryptoRng, RngCore, SeedableRng};
use rand_chacha::ChaCha20Rng;
use sha2::{Digest, Sha256};

pub struct TapeRng {
    inner: ChaCha20Rng,
    /// bytes consumed so far
    pub pos: usize,
    /// (offset, len) of every fill request
    pub draws: Vec<(usize, usize)>,
    /// after `switch_at` bytes the stream continues from `alt` (tapes equal up to byte n)
    switch_at: Option<usize>,
    /// ... and back to the original stream from this position on (only one draw replaced)
    switch_back: Option<usize>,
    alt: Option<ChaCha20Rng>,
    /// the first `.0` bytes of the tape have the bits `.1` forced to one (a structured tape on which
    /// rejection sampling keeps rejecting; the bytes still differ from tape to tape)
    pub force: Option<(usize, u8)>,
}

pub fn tape_key(run_seed: u64, tape: i64) -> [u8; 32] {
    let mut h = Sha256::new();
    h.update(b"opaque-verif-tape");
    h.update(run_seed.to_le_bytes());
    h.update(tape.to_le_bytes());
    h.finalize().into()
}

impl TapeRng {
    pub fn new(run_seed: u64, tape: i64) -> Self {
        TapeRng {
            inner: ChaCha20Rng::from_seed(tape_key(run_seed, tape)),
            pos: 0,
            draws: Vec::new(),
            switch_at: None,
            switch_back: None,
            alt: None,
            force: None,
        }
    }
    /// A tape equal to `tape` except for the bytes [off, off+len), which come from `other`.
    pub fn patched(run_seed: u64, tape: i64, other: i64, off: usize, len: usize) -> Self {
        let mut t = Self::split(run_seed, tape, other, off);
        t.switch_back = Some(off + len);
        t
    }
    /// A tape equal to `tape` for the first `n` bytes and to the independent tape `other` afterwards.
    pub fn split(run_seed: u64, tape: i64, other: i64, n: usize) -> Self {
        let mut t = Self::new(run_seed, tape);
        t.switch_at = Some(n);
        t.alt = Some(ChaCha20Rng::from_seed(tape_key(run_seed, other)));
        t
    }
    fn byte(&mut self) -> u8 {
        let mut b = [0u8; 1];
        let in_alt = match (self.switch_at, self.switch_back) {
            (Some(n), Some(m)) => self.pos >= n && self.pos < m,
            (Some(n), None) => self.pos >= n,
            _ => false,
        };
        if in_alt {
            self.alt.as_mut().unwrap().fill_bytes(&mut b);
            if self.switch_back.is_some() {
                // keep the original stream aligned
                let mut skip = [0u8; 1];
                self.inner.fill_bytes(&mut skip);
            }
        } else {
            self.inner.fill_bytes(&mut b);
        }
        if let Some((n, m)) = self.force {
            if self.pos < n {
                b[0] |= m;
            }
        }
        self.pos += 1;
        b[0]
    }
}

impl RngCore for TapeRng {
    fn next_u32(&mut self) -> u32 {
        let mut b = [0u8; 4];
        self.fill_bytes(&mut b);
        u32::from_le_bytes(b)
    }
    fn next_u64(&mut self) -> u64 {
        let mut b = [0u8; 8];
        self.fill_bytes(&mut b);
        u64::from_le_bytes(b)
    }
    fn fill_bytes(&mut self, dest: &mut [u8]) {
        self.draws.push((self.pos, dest.len()));
        for d in dest.iter_mut() {
            *d = self.byte();
        }
    }
    fn try_fill_bytes(&mut self, dest: &mut [u8]) -> Result<(), rand::Error> {
        self.fill_bytes(dest);
        Ok(())
    }
}
impl CryptoRng for TapeRng {}

//! Harness-defined key-stretching function: distinguishable instances, a call log and faults.
use generic_array::{ArrayLength, GenericArray};
use opaque_ke::errors::InternalError;
use opaque_ke::ksf::Ksf;
use sha2::{Digest, Sha512};
use std::cell::RefCell;

thread_local! {
    /// (instance, input) of every call made on this thread since the last `take_log`
    pub static KSF_LOG: RefCell<Vec<(u32, Vec<u8>)>> = RefCell::new(Vec::new());
}

pub fn take_log() -> Vec<(u32, Vec<u8>)> {
    KSF_LOG.with(|l| std::mem::take(&mut *l.borrow_mut()))
}

#[derive(Clone, Debug, PartialEq, Eq)]
pub struct TestKsf {
    pub inst: u32,
    pub fail: bool,
}

impl Default for TestKsf {
    fn default() -> Self {
        TestKsf { inst: 0, fail: false }
    }
}

/// The reference definition of instance `inst` (used by the term evaluator as well).
pub fn test_ksf_eval(inst: u32, input: &[u8]) -> Vec<u8> {
    let mut out = Vec::with_capacity(input.len());
    let mut ctr = 0u32;
    while out.len() < input.len() {
        let mut h = Sha512::new();
        h.update(b"opaque-verif-test-ksf");
        h.update(inst.to_be_bytes());
        h.update(ctr.to_be_bytes());
        h.update(input);
        out.extend_from_slice(&h.finalize());
        ctr += 1;
    }
    out.truncate(input.len());
    out
}

impl Ksf for TestKsf {
    fn hash<L: ArrayLength<u8>>(
        &self,
        input: GenericArray<u8, L>,
    ) -> Result<GenericArray<u8, L>, InternalError> {
        KSF_LOG.with(|l| l.borrow_mut().push((self.inst, input.to_vec())));
        if self.fail {
            return Err(InternalError::KsfError);
        }
        Ok(GenericArray::clone_from_slice(&test_ksf_eval(self.inst, &input)))
    }
}

/// A key-stretching function with hard-coded parameters: a ZERO-SIZED type (the natural shape of a
/// fixed-cost KSF: `Ksf: Default` must be constructible from nothing).  One instance only; calls are
/// logged as instance ZST_INST.
pub const ZST_INST: u32 = 1000;
#[derive(Clone, Debug, Default, PartialEq, Eq)]
pub struct ZstKsf;
impl Ksf for ZstKsf {
    fn hash<L: ArrayLength<u8>>(
        &self,
        input: GenericArray<u8, L>,
    ) -> Result<GenericArray<u8, L>, InternalError> {
        KSF_LOG.with(|l| l.borrow_mut().push((ZST_INST, input.to_vec())));
        Ok(GenericArray::clone_from_slice(&test_ksf_eval(ZST_INST, &input)))
    }
}

//! The cipher-suite registry: 20 OPRF x KE combinations with the instrumented test KSF,
//! the five diagonal suites with `ksf::Identity`, and three with Argon2.
use crate::suite::Suite;

macro_rules! suite {
    ($m:ident, $oprf:ty, $ke:ty, $k:ty, $mk:expr, $name:expr, $on:expr, $kn:expr, $ksfn:expr) => {
        pub mod $m {
            pub type Oprf = $oprf;
            pub type Ke = $ke;
            pub type K = $k;
            pub const NAME: &str = $name;
            pub const OPRF: &str = $on;
            pub const KE: &str = $kn;
            pub const KSF: &str = $ksfn;
            pub fn make_ksf(inst: u32, fail: bool) -> K {
                let f: fn(u32, bool) -> K = $mk;
                f(inst, fail)
            }
            include!("suite_body.rs");
        }
    };
}

fn mk_test(inst: u32, fail: bool) -> crate::tksf::TestKsf {
    crate::tksf::TestKsf { inst, fail }
}
fn mk_zst(_inst: u32, _fail: bool) -> crate::tksf::ZstKsf {
    crate::tksf::ZstKsf
}
fn mk_identity(_inst: u32, _fail: bool) -> opaque_ke::ksf::Identity {
    opaque_ke::ksf::Identity
}
pub fn mk_argon_pub(inst: u32) -> argon2::Argon2<'static> {
    mk_argon(inst, false)
}
/// instance 0 = Argon2::default(); 1, 2 = other cost parameters; 3, 4 = keyed (two different secrets);
/// 5 = another variant and version (Argon2i v0x10); 6, 7 = keyed with an explicit 32-byte output length
/// (usable only where the OPRF hash is 32 bytes long: elsewhere the instance itself fails)
fn mk_argon(inst: u32, _fail: bool) -> argon2::Argon2<'static> {
    use argon2::{Algorithm, Argon2, Params, Version};
    const SECRET_A: &[u8] = b"opaque-verif pepper A";
    const SECRET_B: &[u8] = b"opaque-verif pepper B";
    // (where the hash is 32 bytes long an explicit output length of 32 changes nothing: other secrets)
    const SECRET_C: &[u8] = b"opaque-verif pepper C";
    const SECRET_D: &[u8] = b"opaque-verif pepper D";
    match inst {
        0 => Argon2::default(),
        3 => Argon2::new_with_secret(SECRET_A, Algorithm::Argon2id, Version::V0x13, Params::new(16, 1, 1, None).unwrap()).unwrap(),
        4 => Argon2::new_with_secret(SECRET_B, Algorithm::Argon2id, Version::V0x13, Params::new(16, 1, 1, None).unwrap()).unwrap(),
        5 => Argon2::new(Algorithm::Argon2i, Version::V0x10, Params::new(16, 1, 1, None).unwrap()),
        6 => Argon2::new_with_secret(SECRET_C, Algorithm::Argon2id, Version::V0x13, Params::new(16, 1, 1, Some(32)).unwrap()).unwrap(),
        7 => Argon2::new_with_secret(SECRET_D, Algorithm::Argon2id, Version::V0x13, Params::new(16, 1, 1, Some(32)).unwrap()).unwrap(),
        _ => Argon2::new(Algorithm::Argon2id, Version::V0x13, Params::new(8 * (inst + 1), 1, 1, None).unwrap()),
    }
}

suite!(rist_rist_t, opaque_ke::Ristretto255, opaque_ke::Ristretto255, crate::tksf::TestKsf, super::mk_test, "ristretto255-SHA512/ristretto255/test", "ristretto255-SHA512", "ristretto255", "test");
suite!(rist_p256_t, opaque_ke::Ristretto255, p256::NistP256, crate::tksf::TestKsf, super::mk_test, "ristretto255-SHA512/P-256/test", "ristretto255-SHA512", "P-256", "test");
suite!(rist_p384_t, opaque_ke::Ristretto255, p384::NistP384, crate::tksf::TestKsf, super::mk_test, "ristretto255-SHA512/P-384/test", "ristretto255-SHA512", "P-384", "test");
suite!(rist_p521_t, opaque_ke::Ristretto255, p521::NistP521, crate::tksf::TestKsf, super::mk_test, "ristretto255-SHA512/P-521/test", "ristretto255-SHA512", "P-521", "test");
suite!(rist_x25519_t, opaque_ke::Ristretto255, opaque_ke::Curve25519, crate::tksf::TestKsf, super::mk_test, "ristretto255-SHA512/Curve25519/test", "ristretto255-SHA512", "Curve25519", "test");
suite!(p256_rist_t, p256::NistP256, opaque_ke::Ristretto255, crate::tksf::TestKsf, super::mk_test, "P256-SHA256/ristretto255/test", "P256-SHA256", "ristretto255", "test");
suite!(p256_p256_t, p256::NistP256, p256::NistP256, crate::tksf::TestKsf, super::mk_test, "P256-SHA256/P-256/test", "P256-SHA256", "P-256", "test");
suite!(p256_p384_t, p256::NistP256, p384::NistP384, crate::tksf::TestKsf, super::mk_test, "P256-SHA256/P-384/test", "P256-SHA256", "P-384", "test");
suite!(p256_p521_t, p256::NistP256, p521::NistP521, crate::tksf::TestKsf, super::mk_test, "P256-SHA256/P-521/test", "P256-SHA256", "P-521", "test");
suite!(p256_x25519_t, p256::NistP256, opaque_ke::Curve25519, crate::tksf::TestKsf, super::mk_test, "P256-SHA256/Curve25519/test", "P256-SHA256", "Curve25519", "test");
suite!(p384_rist_t, p384::NistP384, opaque_ke::Ristretto255, crate::tksf::TestKsf, super::mk_test, "P384-SHA384/ristretto255/test", "P384-SHA384", "ristretto255", "test");
suite!(p384_p256_t, p384::NistP384, p256::NistP256, crate::tksf::TestKsf, super::mk_test, "P384-SHA384/P-256/test", "P384-SHA384", "P-256", "test");
suite!(p384_p384_t, p384::NistP384, p384::NistP384, crate::tksf::TestKsf, super::mk_test, "P384-SHA384/P-384/test", "P384-SHA384", "P-384", "test");
suite!(p384_p521_t, p384::NistP384, p521::NistP521, crate::tksf::TestKsf, super::mk_test, "P384-SHA384/P-521/test", "P384-SHA384", "P-521", "test");
suite!(p384_x25519_t, p384::NistP384, opaque_ke::Curve25519, crate::tksf::TestKsf, super::mk_test, "P384-SHA384/Curve25519/test", "P384-SHA384", "Curve25519", "test");
suite!(p521_rist_t, p521::NistP521, opaque_ke::Ristretto255, crate::tksf::TestKsf, super::mk_test, "P521-SHA512/ristretto255/test", "P521-SHA512", "ristretto255", "test");
suite!(p521_p256_t, p521::NistP521, p256::NistP256, crate::tksf::TestKsf, super::mk_test, "P521-SHA512/P-256/test", "P521-SHA512", "P-256", "test");
suite!(p521_p384_t, p521::NistP521, p384::NistP384, crate::tksf::TestKsf, super::mk_test, "P521-SHA512/P-384/test", "P521-SHA512", "P-384", "test");
suite!(p521_p521_t, p521::NistP521, p521::NistP521, crate::tksf::TestKsf, super::mk_test, "P521-SHA512/P-521/test", "P521-SHA512", "P-521", "test");
suite!(p521_x25519_t, p521::NistP521, opaque_ke::Curve25519, crate::tksf::TestKsf, super::mk_test, "P521-SHA512/Curve25519/test", "P521-SHA512", "Curve25519", "test");
suite!(rist_rist_i, opaque_ke::Ristretto255, opaque_ke::Ristretto255, opaque_ke::ksf::Identity, super::mk_identity, "ristretto255-SHA512/ristretto255/identity", "ristretto255-SHA512", "ristretto255", "identity");
suite!(p256_p256_i, p256::NistP256, p256::NistP256, opaque_ke::ksf::Identity, super::mk_identity, "P256-SHA256/P-256/identity", "P256-SHA256", "P-256", "identity");
suite!(p384_p384_i, p384::NistP384, p384::NistP384, opaque_ke::ksf::Identity, super::mk_identity, "P384-SHA384/P-384/identity", "P384-SHA384", "P-384", "identity");
suite!(p521_p521_i, p521::NistP521, p521::NistP521, opaque_ke::ksf::Identity, super::mk_identity, "P521-SHA512/P-521/identity", "P521-SHA512", "P-521", "identity");
suite!(rist_x25519_i, opaque_ke::Ristretto255, opaque_ke::Curve25519, opaque_ke::ksf::Identity, super::mk_identity, "ristretto255-SHA512/Curve25519/identity", "ristretto255-SHA512", "Curve25519", "identity");
suite!(rist_rist_z, opaque_ke::Ristretto255, opaque_ke::Ristretto255, crate::tksf::ZstKsf, super::mk_zst, "ristretto255-SHA512/ristretto255/zst", "ristretto255-SHA512", "ristretto255", "zst");
suite!(p384_p256_z, p384::NistP384, p256::NistP256, crate::tksf::ZstKsf, super::mk_zst, "P384-SHA384/P-256/zst", "P384-SHA384", "P-256", "zst");
suite!(rist_rist_a, opaque_ke::Ristretto255, opaque_ke::Ristretto255, argon2::Argon2<'static>, super::mk_argon, "ristretto255-SHA512/ristretto255/argon2", "ristretto255-SHA512", "ristretto255", "argon2");
suite!(p256_p256_a, p256::NistP256, p256::NistP256, argon2::Argon2<'static>, super::mk_argon, "P256-SHA256/P-256/argon2", "P256-SHA256", "P-256", "argon2");
suite!(p521_x25519_a, p521::NistP521, opaque_ke::Curve25519, argon2::Argon2<'static>, super::mk_argon, "P521-SHA512/Curve25519/argon2", "P521-SHA512", "Curve25519", "argon2");

pub fn all() -> Vec<Box<dyn Suite>> {
    vec![
        Box::new(rist_rist_t::S),
        Box::new(rist_p256_t::S),
        Box::new(rist_p384_t::S),
        Box::new(rist_p521_t::S),
        Box::new(rist_x25519_t::S),
        Box::new(p256_rist_t::S),
        Box::new(p256_p256_t::S),
        Box::new(p256_p384_t::S),
        Box::new(p256_p521_t::S),
        Box::new(p256_x25519_t::S),
        Box::new(p384_rist_t::S),
        Box::new(p384_p256_t::S),
        Box::new(p384_p384_t::S),
        Box::new(p384_p521_t::S),
        Box::new(p384_x25519_t::S),
        Box::new(p521_rist_t::S),
        Box::new(p521_p256_t::S),
        Box::new(p521_p384_t::S),
        Box::new(p521_p521_t::S),
        Box::new(p521_x25519_t::S),
        Box::new(rist_rist_i::S),
        Box::new(p256_p256_i::S),
        Box::new(p384_p384_i::S),
        Box::new(p521_p521_i::S),
        Box::new(rist_x25519_i::S),
        Box::new(rist_rist_z::S),
        Box::new(p384_p256_z::S),
        Box::new(rist_rist_a::S),
        Box::new(p256_p256_a::S),
        Box::new(p521_x25519_a::S),
    ]
}

//! Reference group operations, written directly on the curve crates (curve25519-dalek,
//! p256/p384/p521, elliptic-curve) and on RFC 9497 / RFC 9380 / RFC 7748 -- NOT on opaque-ke.
//! Used as validity predicates for adversary-made values, by the term evaluator (exact
//! bytes, C09) and by the group-law checks (C19).
use curve25519_dalek::montgomery::MontgomeryPoint;
use curve25519_dalek::ristretto::{CompressedRistretto, RistrettoPoint};
use curve25519_dalek::scalar::Scalar as DScalar;
use curve25519_dalek::traits::Identity;
use elliptic_curve::group::Curve as _;
use elliptic_curve::hash2curve::{ExpandMsg, ExpandMsgXmd, Expander, GroupDigest};
use elliptic_curve::sec1::{EncodedPoint, FromEncodedPoint, ToEncodedPoint};
use elliptic_curve::{Field, PrimeField};
use sha2::{Digest, Sha256, Sha384, Sha512};

#[derive(Clone, Copy, Debug, PartialEq, Eq)]
pub enum HashKind {
    Sha256,
    Sha384,
    Sha512,
}

impl HashKind {
    pub fn len(self) -> usize {
        match self {
            HashKind::Sha256 => 32,
            HashKind::Sha384 => 48,
            HashKind::Sha512 => 64,
        }
    }
    pub fn hash(self, parts: &[&[u8]]) -> Vec<u8> {
        macro_rules! h {
            ($t:ty) => {{
                let mut h = <$t>::new();
                for p in parts {
                    h.update(p);
                }
                h.finalize().to_vec()
            }};
        }
        match self {
            HashKind::Sha256 => h!(Sha256),
            HashKind::Sha384 => h!(Sha384),
            HashKind::Sha512 => h!(Sha512),
        }
    }
    pub fn hmac(self, key: &[u8], parts: &[&[u8]]) -> Vec<u8> {
        use hmac::{Hmac, Mac};
        macro_rules! m {
            ($t:ty) => {{
                let mut m = Hmac::<$t>::new_from_slice(key).unwrap();
                for p in parts {
                    m.update(p);
                }
                m.finalize().into_bytes().to_vec()
            }};
        }
        match self {
            HashKind::Sha256 => m!(Sha256),
            HashKind::Sha384 => m!(Sha384),
            HashKind::Sha512 => m!(Sha512),
        }
    }
    /// HKDF-Extract with an empty salt
    pub fn extract(self, ikm: &[u8]) -> Vec<u8> {
        let salt = vec![0u8; self.len()];
        self.hmac(&salt, &[ikm])
    }
    /// HKDF-Expand (RFC 5869), written out
    pub fn expand(self, prk: &[u8], info: &[u8], len: usize) -> Vec<u8> {
        let mut out = Vec::new();
        let mut t: Vec<u8> = Vec::new();
        let mut i = 1u8;
        while out.len() < len {
            t = self.hmac(prk, &[&t, info, &[i]]);
            out.extend_from_slice(&t);
            i = i.wrapping_add(1);
        }
        out.truncate(len);
        out
    }
    /// expand_message_xmd (RFC 9380 5.3.1) through the elliptic-curve crate
    pub fn xmd(self, msg: &[&[u8]], dst: &[&[u8]], len: usize) -> Vec<u8> {
        let mut out = vec![0u8; len];
        macro_rules! x {
            ($t:ty) => {{
                let mut e = ExpandMsgXmd::<$t>::expand_message(msg, dst, len).unwrap();
                e.fill_bytes(&mut out);
            }};
        }
        match self {
            HashKind::Sha256 => x!(Sha256),
            HashKind::Sha384 => x!(Sha384),
            HashKind::Sha512 => x!(Sha512),
        }
        out
    }
}

/// RFC 9497 contextString for mode 0
pub fn context_string(oprf_id: &str) -> Vec<u8> {
    let mut v = b"OPRFV1-".to_vec();
    v.push(0);
    v.push(b'-');
    v.extend_from_slice(oprf_id.as_bytes());
    v
}

// ===================================================================== KE groups
pub trait RefKe: Sync + Send {
    fn name(&self) -> &'static str;
    fn npk(&self) -> usize;
    fn nsk(&self) -> usize;
    /// canonical encoding of a valid, non-identity (and for X25519 not small-order) element
    fn pk_valid(&self, b: &[u8]) -> bool;
    /// canonical encoding of a non-zero scalar in range (X25519: clamped)
    fn sk_valid(&self, b: &[u8]) -> bool;
    fn public(&self, sk: &[u8]) -> Vec<u8>;
    fn dh(&self, sk: &[u8], pk: &[u8]) -> Vec<u8>;
    /// HashToScalar over this group's scalar field with expand_message_xmd(hash); None for X25519
    fn hash_to_scalar(&self, hash: HashKind, msg: &[&[u8]], dst: &[&[u8]]) -> Option<Vec<u8>>;
    fn scalar_is_zero(&self, sk: &[u8]) -> bool {
        sk.iter().all(|b| *b == 0)
    }
    /// private keys 1 and order-1 (X25519: clamped minimum and maximum)
    fn extreme_sks(&self) -> Vec<Vec<u8>>;
    /// DeriveDiffieHellmanKeyPair(seed): RFC 9807 via RFC 9497 DeriveKeyPair with this group's
    /// scalar field and the OPRF suite's hash and context string; RFC 7748 clamp for X25519
    fn derive(&self, oprf_id: &str, hash: HashKind, seed: &[u8]) -> Vec<u8> {
        let info = b"OPAQUE-DeriveDiffieHellmanKeyPair";
        let mut dst = b"DeriveKeyPair".to_vec();
        dst.extend_from_slice(&context_string(oprf_id));
        for ctr in 0u16..=255 {
            let c = [ctr as u8];
            let sk = self
                .hash_to_scalar(hash, &[seed, &(info.len() as u16).to_be_bytes(), info, &c], &[&dst])
                .expect("hash_to_scalar");
            if !self.scalar_is_zero(&sk) {
                return sk;
            }
        }
        panic!("DeriveKeyPair: 256 zero scalars")
    }
}

pub struct RistKe;
impl RefKe for RistKe {
    fn name(&self) -> &'static str {
        "ristretto255"
    }
    fn npk(&self) -> usize {
        32
    }
    fn nsk(&self) -> usize {
        32
    }
    fn pk_valid(&self, b: &[u8]) -> bool {
        rist_elem(b).is_some()
    }
    fn sk_valid(&self, b: &[u8]) -> bool {
        rist_scalar(b).map(|s| s != DScalar::ZERO).unwrap_or(false)
    }
    fn public(&self, sk: &[u8]) -> Vec<u8> {
        (curve25519_dalek::constants::RISTRETTO_BASEPOINT_POINT * rist_scalar(sk).unwrap())
            .compress()
            .to_bytes()
            .to_vec()
    }
    fn dh(&self, sk: &[u8], pk: &[u8]) -> Vec<u8> {
        (rist_elem(pk).unwrap() * rist_scalar(sk).unwrap()).compress().to_bytes().to_vec()
    }
    fn hash_to_scalar(&self, hash: HashKind, msg: &[&[u8]], dst: &[&[u8]]) -> Option<Vec<u8>> {
        let u = hash.xmd(msg, dst, 64);
        let mut w = [0u8; 64];
        w.copy_from_slice(&u);
        Some(DScalar::from_bytes_mod_order_wide(&w).to_bytes().to_vec())
    }
    fn extreme_sks(&self) -> Vec<Vec<u8>> {
        vec![DScalar::ONE.to_bytes().to_vec(), (-DScalar::ONE).to_bytes().to_vec()]
    }
}
fn rist_elem(b: &[u8]) -> Option<RistrettoPoint> {
    if b.len() != 32 {
        return None;
    }
    CompressedRistretto::from_slice(b)
        .ok()?
        .decompress()
        .filter(|p| *p != RistrettoPoint::identity())
}
fn rist_scalar(b: &[u8]) -> Option<DScalar> {
    if b.len() != 32 {
        return None;
    }
    let mut a = [0u8; 32];
    a.copy_from_slice(b);
    Option::from(DScalar::from_canonical_bytes(a))
}

pub struct X25519Ke;
fn clamp(mut k: [u8; 32]) -> [u8; 32] {
    k[0] &= 248;
    k[31] &= 127;
    k[31] |= 64;
    k
}
impl RefKe for X25519Ke {
    fn name(&self) -> &'static str {
        "Curve25519"
    }
    fn npk(&self) -> usize {
        32
    }
    fn nsk(&self) -> usize {
        32
    }
    fn pk_valid(&self, b: &[u8]) -> bool {
        if b.len() != 32 {
            return false;
        }
        let mut a = [0u8; 32];
        a.copy_from_slice(b);
        // a point has small order iff every clamped scalar (a multiple of the cofactor 8) maps it to 0
        let r = MontgomeryPoint(a).mul_clamped([0x55u8; 32]);
        r.to_bytes() != [0u8; 32]
    }
    fn sk_valid(&self, b: &[u8]) -> bool {
        if b.len() != 32 {
            return false;
        }
        let mut a = [0u8; 32];
        a.copy_from_slice(b);
        clamp(a) == a
    }
    fn public(&self, sk: &[u8]) -> Vec<u8> {
        let mut a = [0u8; 32];
        a.copy_from_slice(sk);
        // RFC 7748 X25519(k, 9)
        let mut base = [0u8; 32];
        base[0] = 9;
        x25519(a, base).to_vec()
    }
    fn dh(&self, sk: &[u8], pk: &[u8]) -> Vec<u8> {
        let mut a = [0u8; 32];
        a.copy_from_slice(sk);
        let mut p = [0u8; 32];
        p.copy_from_slice(pk);
        x25519(a, p).to_vec()
    }
    fn hash_to_scalar(&self, _h: HashKind, _m: &[&[u8]], _d: &[&[u8]]) -> Option<Vec<u8>> {
        None
    }
    fn extreme_sks(&self) -> Vec<Vec<u8>> {
        vec![clamp([0u8; 32]).to_vec(), clamp([0xffu8; 32]).to_vec()]
    }
    fn derive(&self, _oprf_id: &str, _hash: HashKind, seed: &[u8]) -> Vec<u8> {
        let mut a = [0u8; 32];
        a.copy_from_slice(seed);
        clamp(a).to_vec()
    }
}
/// RFC 7748 section 5: clamp the scalar, mask the top bit of u, Montgomery ladder
fn x25519(k: [u8; 32], u: [u8; 32]) -> [u8; 32] {
    let k = clamp(k);
    // mul_bits_be performs the ladder over the given bits (dalek masks the top bit of u itself)
    let bits = (0..255).rev().map(|i| (k[i >> 3] >> (i & 7)) & 1 == 1);
    MontgomeryPoint(u).mul_bits_be(bits).to_bytes()
}

macro_rules! nist_ke {
    ($name:ident, $curve:ty, $label:expr, $npk:expr, $nsk:expr) => {
        pub struct $name;
        impl $name {
            fn scalar(b: &[u8]) -> Option<elliptic_curve::Scalar<$curve>> {
                if b.len() != $nsk {
                    return None;
                }
                let repr = elliptic_curve::FieldBytes::<$curve>::clone_from_slice(b);
                Option::from(elliptic_curve::Scalar::<$curve>::from_repr(repr))
            }
            fn point(b: &[u8]) -> Option<elliptic_curve::ProjectivePoint<$curve>> {
                if b.len() != $npk || (b[0] != 2 && b[0] != 3) {
                    return None;
                }
                let ep = EncodedPoint::<$curve>::from_bytes(b).ok()?;
                let ap: Option<elliptic_curve::AffinePoint<$curve>> =
                    Option::from(elliptic_curve::AffinePoint::<$curve>::from_encoded_point(&ep));
                ap.map(Into::into)
            }
            fn enc(p: elliptic_curve::ProjectivePoint<$curve>) -> Vec<u8> {
                p.to_affine().to_encoded_point(true).as_bytes().to_vec()
            }
        }
        impl RefKe for $name {
            fn name(&self) -> &'static str {
                $label
            }
            fn npk(&self) -> usize {
                $npk
            }
            fn nsk(&self) -> usize {
                $nsk
            }
            fn pk_valid(&self, b: &[u8]) -> bool {
                Self::point(b).is_some()
            }
            fn sk_valid(&self, b: &[u8]) -> bool {
                Self::scalar(b).map(|s| !bool::from(s.is_zero())).unwrap_or(false)
            }
            fn public(&self, sk: &[u8]) -> Vec<u8> {
                Self::enc(elliptic_curve::ProjectivePoint::<$curve>::GENERATOR * Self::scalar(sk).unwrap())
            }
            fn dh(&self, sk: &[u8], pk: &[u8]) -> Vec<u8> {
                Self::enc(Self::point(pk).unwrap() * Self::scalar(sk).unwrap())
            }
            fn hash_to_scalar(&self, hash: HashKind, msg: &[&[u8]], dst: &[&[u8]]) -> Option<Vec<u8>> {
                let s = match hash {
                    HashKind::Sha256 => <$curve as GroupDigest>::hash_to_scalar::<ExpandMsgXmd<Sha256>>(msg, dst),
                    HashKind::Sha384 => <$curve as GroupDigest>::hash_to_scalar::<ExpandMsgXmd<Sha384>>(msg, dst),
                    HashKind::Sha512 => <$curve as GroupDigest>::hash_to_scalar::<ExpandMsgXmd<Sha512>>(msg, dst),
                }
                .ok()?;
                Some(s.to_repr().to_vec())
            }
            fn extreme_sks(&self) -> Vec<Vec<u8>> {
                let one = elliptic_curve::Scalar::<$curve>::ONE;
                vec![one.to_repr().to_vec(), (-one).to_repr().to_vec()]
            }
        }
    };
}
nist_ke!(P256Ke, p256::NistP256, "P-256", 33, 32);
nist_ke!(P384Ke, p384::NistP384, "P-384", 49, 48);
nist_ke!(P521Ke, p521::NistP521, "P-521", 67, 66);

pub fn ke_by_name(name: &str) -> Box<dyn RefKe> {
    match name {
        "ristretto255" => Box::new(RistKe),
        "Curve25519" => Box::new(X25519Ke),
        "P-256" => Box::new(P256Ke),
        "P-384" => Box::new(P384Ke),
        "P-521" => Box::new(P521Ke),
        _ => panic!("ke {name}"),
    }
}

// =================================================================== OPRF groups
pub trait RefOprf: Sync + Send {
    fn id(&self) -> &'static str;
    fn hash(&self) -> HashKind;
    fn noe(&self) -> usize;
    fn nok(&self) -> usize;
    fn elem_valid(&self, b: &[u8]) -> bool;
    fn scalar_valid(&self, b: &[u8]) -> bool;
    fn hash_to_group(&self, msg: &[&[u8]], dst: &[&[u8]]) -> Vec<u8>;
    fn hash_to_scalar(&self, msg: &[&[u8]], dst: &[&[u8]]) -> Vec<u8>;
    fn mul(&self, elem: &[u8], scalar: &[u8]) -> Vec<u8>;
    fn inv(&self, scalar: &[u8]) -> Vec<u8>;
    fn scalar_mul(&self, a: &[u8], b: &[u8]) -> Vec<u8>;
    /// RFC 9497 DeriveKeyPair(seed, info), mode 0: the private key
    fn derive_key(&self, seed: &[u8], info: &[u8]) -> Vec<u8> {
        let mut dst = b"DeriveKeyPair".to_vec();
        dst.extend_from_slice(&context_string(self.id()));
        for ctr in 0u16..=255 {
            let sk = self.hash_to_scalar(
                &[seed, &(info.len() as u16).to_be_bytes(), info, &[ctr as u8]],
                &[&dst],
            );
            if !sk.iter().all(|b| *b == 0) {
                return sk;
            }
        }
        panic!("DeriveKeyPair")
    }
    /// HashToGroup(input) with DST "HashToGroup-" || contextString
    fn h2g(&self, input: &[u8]) -> Vec<u8> {
        let mut dst = b"HashToGroup-".to_vec();
        dst.extend_from_slice(&context_string(self.id()));
        self.hash_to_group(&[input], &[&dst])
    }
}

pub struct RistOprf;
impl RefOprf for RistOprf {
    fn id(&self) -> &'static str {
        "ristretto255-SHA512"
    }
    fn hash(&self) -> HashKind {
        HashKind::Sha512
    }
    fn noe(&self) -> usize {
        32
    }
    fn nok(&self) -> usize {
        32
    }
    fn elem_valid(&self, b: &[u8]) -> bool {
        rist_elem(b).is_some()
    }
    fn scalar_valid(&self, b: &[u8]) -> bool {
        rist_scalar(b).map(|s| s != DScalar::ZERO).unwrap_or(false)
    }
    fn hash_to_group(&self, msg: &[&[u8]], dst: &[&[u8]]) -> Vec<u8> {
        let u = HashKind::Sha512.xmd(msg, dst, 64);
        let mut w = [0u8; 64];
        w.copy_from_slice(&u);
        RistrettoPoint::from_uniform_bytes(&w).compress().to_bytes().to_vec()
    }
    fn hash_to_scalar(&self, msg: &[&[u8]], dst: &[&[u8]]) -> Vec<u8> {
        RistKe.hash_to_scalar(HashKind::Sha512, msg, dst).unwrap()
    }
    fn mul(&self, elem: &[u8], scalar: &[u8]) -> Vec<u8> {
        (rist_elem(elem).unwrap() * rist_scalar(scalar).unwrap()).compress().to_bytes().to_vec()
    }
    fn inv(&self, scalar: &[u8]) -> Vec<u8> {
        rist_scalar(scalar).unwrap().invert().to_bytes().to_vec()
    }
    fn scalar_mul(&self, a: &[u8], b: &[u8]) -> Vec<u8> {
        (rist_scalar(a).unwrap() * rist_scalar(b).unwrap()).to_bytes().to_vec()
    }
}

macro_rules! nist_oprf {
    ($name:ident, $ke:ident, $curve:ty, $id:expr, $hk:expr, $hash:ty, $noe:expr, $nok:expr) => {
        pub struct $name;
        impl RefOprf for $name {
            fn id(&self) -> &'static str {
                $id
            }
            fn hash(&self) -> HashKind {
                $hk
            }
            fn noe(&self) -> usize {
                $noe
            }
            fn nok(&self) -> usize {
                $nok
            }
            fn elem_valid(&self, b: &[u8]) -> bool {
                $ke.pk_valid(b)
            }
            fn scalar_valid(&self, b: &[u8]) -> bool {
                $ke.sk_valid(b)
            }
            fn hash_to_group(&self, msg: &[&[u8]], dst: &[&[u8]]) -> Vec<u8> {
                let p = <$curve as GroupDigest>::hash_from_bytes::<ExpandMsgXmd<$hash>>(msg, dst).unwrap();
                $ke::enc(p)
            }
            fn hash_to_scalar(&self, msg: &[&[u8]], dst: &[&[u8]]) -> Vec<u8> {
                $ke.hash_to_scalar($hk, msg, dst).unwrap()
            }
            fn mul(&self, elem: &[u8], scalar: &[u8]) -> Vec<u8> {
                $ke.dh(scalar, elem)
            }
            fn inv(&self, scalar: &[u8]) -> Vec<u8> {
                let s = $ke::scalar(scalar).unwrap();
                let i: elliptic_curve::Scalar<$curve> = Option::from(s.invert()).unwrap();
                i.to_repr().to_vec()
            }
            fn scalar_mul(&self, a: &[u8], b: &[u8]) -> Vec<u8> {
                ($ke::scalar(a).unwrap() * $ke::scalar(b).unwrap()).to_repr().to_vec()
            }
        }
    };
}
nist_oprf!(P256Oprf, P256Ke, p256::NistP256, "P256-SHA256", HashKind::Sha256, Sha256, 33, 32);
nist_oprf!(P384Oprf, P384Ke, p384::NistP384, "P384-SHA384", HashKind::Sha384, Sha384, 49, 48);
nist_oprf!(P521Oprf, P521Ke, p521::NistP521, "P521-SHA512", HashKind::Sha512, Sha512, 67, 66);

pub fn oprf_by_name(name: &str) -> Box<dyn RefOprf> {
    match name {
        "ristretto255-SHA512" => Box::new(RistOprf),
        "P256-SHA256" => Box::new(P256Oprf),
        "P384-SHA384" => Box::new(P384Oprf),
        "P521-SHA512" => Box::new(P521Oprf),
        _ => panic!("oprf {name}"),
    }
}

/// A fresh valid OPRF element / KE public key that no honest party produced
pub fn fresh_oelem(o: &dyn RefOprf, n: u64) -> Vec<u8> {
    o.hash_to_group(&[b"fresh element", &n.to_be_bytes()], &[b"opaque-verif-fresh"])
}
pub fn fresh_kpk(k: &dyn RefKe, n: u64) -> Vec<u8> {
    let mut seed = vec![0u8; k.nsk()];
    let h = Sha512::digest([b"fresh key".as_slice(), &n.to_be_bytes()].concat());
    let l = seed.len().min(32);
    seed[k.nsk() - l..].copy_from_slice(&h[..l]);
    if k.name() == "Curve25519" {
        // RFC 7748: every 32-byte string that is not a small-order point is a usable public key --
        // points of the curve, points of its quadratic twist, and small u-coordinates alike
        // (n = counter + (run seed << 16): the sub-class rotates with both)
        match ((n & 0xffff) + (n >> 16)) % 4 {
            1 | 2 => {
                // a point of the twist (no Edwards form)
                let mut c = 0u8;
                loop {
                    let h = Sha512::digest([b"fresh twist".as_slice(), &n.to_be_bytes(), &[c]].concat());
                    let mut a = [0u8; 32];
                    a.copy_from_slice(&h[..32]);
                    a[31] &= 0x3f;
                    if MontgomeryPoint(a).to_edwards(0).is_none() && k.pk_valid(&a) {
                        return a.to_vec();
                    }
                    c = c.wrapping_add(1);
                }
            }
            3 => {
                // a small u-coordinate (u >= 2; the small-order points 0 and 1 are excluded by the check)
                let mut a = [0u8; 32];
                a[..8].copy_from_slice(&(2 + n / 4).to_le_bytes());
                if k.pk_valid(&a) {
                    return a.to_vec();
                }
            }
            _ => {}
        }
        let sk = X25519Ke.derive("", HashKind::Sha512, &seed);
        return k.public(&sk);
    }
    if k.name() == "ristretto255" {
        seed[31] &= 0x0f; // little-endian: keep below the group order
    } else {
        seed[0] = 0; // big-endian: keep below the group order
    }
    assert!(k.sk_valid(&seed));
    k.public(&seed)
}

------------------------------ MODULE MC_Ext ------------------------------
(* External keys (C18): setup 2 holds the key of setup 1 behind the external-key interface (new_with_key), setup 3 is setup 1 restored into external-key mode; server starts may hit a failing key. *)
EXTENDS MCBase

A(n) == Atom(n)
Plan(pw, cid, s, idu, ids, ksf) == [pw1 |-> A(pw), pw2 |-> A(pw), cid |-> A(cid), s |-> s,
                                    idu |-> idu, ids |-> ids, ksf |-> ksf]
One == {NoneV}
Ext_SetupPlan == << [op |-> "new", tape |-> 1],
                  [op |-> "withkey", tape |-> 2, key |-> 1, mode |-> "ext"],
                  [op |-> "parts", seed |-> 1, key |-> 1, fake |-> 1, mode |-> "ext"],
                  [op |-> "parts", seed |-> 1, key |-> 1, fake |-> 1, mode |-> "ext", xfail |-> TRUE],
                  [op |-> "withkey", tape |-> 5, key |-> 1, mode |-> "ext", xfail |-> TRUE] >>
Ext_RegPlan == << Plan(1, 11, 3, NoneV, NoneV, 0) >>
Ext_CliPw   == [c \in CliIds |-> <<A(1), A(1)>>]
Ext_SrvSetups == {1, 2, 3}
Ext_SrvRecs == {0, 1}
Ext_SrvCids == {A(11)}
Ext_RegIdus == One
Ext_RegIdss == One
Ext_RegKsfs == {0}
Ext_SrvCtxs == One
Ext_SrvIdus == One
Ext_SrvIdss == One
Ext_CliCtxs == One
Ext_CliIdus == One
Ext_CliIdss == One
Ext_CliKsfs == {0}
Ext_MutPlan == << >>

=============================================================================

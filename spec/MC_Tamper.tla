------------------------------ MODULE MC_Tamper ------------------------------
(* Tampering (C04): every response field replaced by an adversary-made value (valid-other and invalid-encoding), or spliced in from the response of another session / user / fake record. *)
EXTENDS MCBase

A(n) == Atom(n)
Plan(pw, cid, s, idu, ids, ksf) == [pw1 |-> A(pw), pw2 |-> A(pw), cid |-> A(cid), s |-> s,
                                    idu |-> idu, ids |-> ids, ksf |-> ksf]
One == {NoneV}
Tamper_SetupPlan == << [op |-> "new", tape |-> 1] >>
Tamper_RegPlan == << Plan(1, 11, 1, NoneV, NoneV, 0), Plan(2, 12, 1, NoneV, NoneV, 0) >>
Tamper_RegIdus == One
Tamper_RegIdss == One
Tamper_RegKsfs == {0}
Tamper_CliPw   == [c \in CliIds |-> IF c = 2 THEN <<A(2), A(2)>> ELSE <<A(1), A(1)>>]
Tamper_SrvSetups == {1}
Tamper_SrvRecs == 0..2
Tamper_SrvCids == {A(11)}
Tamper_SrvCtxs == One
Tamper_SrvIdus == One
Tamper_SrvIdss == One
Tamper_CliCtxs == One
Tamper_CliIdus == One
Tamper_CliIdss == One
Tamper_CliKsfs == {0}
Tamper_MutPlan == << <<"eval", "valid">>, <<"eval", "invalid">>, <<"mn", "valid">>, <<"masked", "valid">>,
                <<"snonce", "valid">>, <<"sepk", "valid">>, <<"sepk", "invalid">>, <<"mac", "valid">>,
                <<"fin", "valid">> >>
=============================================================================

SPECIFICATION MCSpec
CONSTANTS
  SetupIds = {1}
  RegIds = {1,2,3}
  FileIds = {1,2,3}
  CliIds = {1,2,3,4}
  SrvIds = {1,2}
  TrackObs = TRUE
  TrackDeps = FALSE
  Dev = "none"
  SetupPlan <- Pw_SetupPlan
  RegPlan <- Pw_RegPlan
  RegIdus <- Pw_RegIdus
  RegIdss <- Pw_RegIdss
  RegKsfs <- Pw_RegKsfs
  CliPw <- Pw_CliPw
  SrvSetups <- Pw_SrvSetups
  SrvRecs <- Pw_SrvRecs
  SrvCids <- Pw_SrvCids
  SrvCtxs <- Pw_SrvCtxs
  SrvIdus <- Pw_SrvIdus
  SrvIdss <- Pw_SrvIdss
  CliCtxs <- Pw_CliCtxs
  CliIdus <- Pw_CliIdus
  CliIdss <- Pw_CliIdss
  CliKsfs <- Pw_CliKsfs
  MutPlan <- Pw_MutPlan
  Splice = FALSE
  Reloads = FALSE
  ExtFail = FALSE
  MaxFree = 6
INVARIANT Agreement
INVARIANT ClientAcceptsOnlyMatched
INVARIANT ServerAcceptsOnlyMatched
INVARIANT ServerCompletes
INVARIANT SessionKeysDistinct
INVARIANT FakeNeverCompletes
INVARIANT EvalIndependentOfRecord
INVARIANT FakeFieldsFresh
INVARIANT ReportedKeyIsSetupKey
INVARIANT Oblivious
INVARIANT ExportKeySeparated
INVARIANT NoSecretOnWire
INVARIANT EmitAtBound
CONSTRAINT Bound
INVARIANT BothPasswordsBound
CHECK_DEADLOCK FALSE

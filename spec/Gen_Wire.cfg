SPECIFICATION Spec
CONSTANTS
  Fixed <- AllFixed
  Slack = 64
  Suites <- AllSuites
INVARIANT Strict
INVARIANT NoInvalid
INVARIANT Complete
INVARIANT EmitRow
CHECK_DEADLOCK FALSE

------------------------------ MODULE MC_Route ------------------------------
(* Adversarial routing (C02 C03 C07 C08): two users, a third sharing the first one's      *)
(* password, a re-registration of the first, absent record; client sessions incl. a wrong *)
(* password one; every (request, record, credential id) server session; every response    *)
(* to every client; every finalization (and a forged one) to every server session.        *)
EXTENDS MCBase

A(n) == Atom(n)
R_SetupPlan == << [op |-> "new", tape |-> 1] >>
Plan(pw, cid) == [pw1 |-> A(pw), pw2 |-> A(pw), cid |-> A(cid), s |-> 1,
                  idu |-> NoneV, ids |-> NoneV, ksf |-> 0]
\* pool atoms: 1,2 passwords; 11,12,13 credential ids
R_RegPlan == << Plan(1, 11), Plan(2, 12), Plan(1, 13), Plan(1, 11) >>
R_CliPw   == [c \in CliIds |-> IF c = 3 THEN <<A(2), A(2)>>
                               ELSE IF c = 4 THEN <<A(3), A(3)>> ELSE <<A(1), A(1)>>]
R_SrvRecs == 0..4
R_SrvCids == {A(11), A(12)}
R_One     == {NoneV}
R_Ksfs    == {0}
R_Tamper  == {}
EmitNever == TRUE
=============================================================================

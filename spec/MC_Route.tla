------------------------------ MODULE MC_Route ------------------------------
(* Adversarial routing (C02 C03 C07 C08): two users, a third sharing the first one's password, a re-registration of the first, absent record; client sessions incl. a wrong-password one; every (request, record, credential id) server session; every response to every client; every finalization (and a forged one) to every server session. *)
EXTENDS MCBase

A(n) == Atom(n)
Plan(pw, cid, s, idu, ids, ksf) == [pw1 |-> A(pw), pw2 |-> A(pw), cid |-> A(cid), s |-> s,
                                    idu |-> idu, ids |-> ids, ksf |-> ksf]
One == {NoneV}
Route_SetupPlan == << [op |-> "new", tape |-> 1] >>
Route_RegPlan == << Plan(1, 11, 1, NoneV, NoneV, 0), Plan(2, 12, 1, NoneV, NoneV, 0),
                Plan(1, 13, 1, NoneV, NoneV, 0), Plan(1, 11, 1, NoneV, NoneV, 0) >>
Route_RegIdus == One
Route_RegIdss == One
Route_RegKsfs == {0}
Route_CliPw   == [c \in CliIds |-> IF c = 3 THEN <<A(2), A(2)>>
                               ELSE IF c = 4 THEN <<A(3), A(3)>> ELSE <<A(1), A(1)>>]
Route_SrvSetups == {1}
Route_SrvRecs == 0..4
Route_SrvCids == {A(11), A(12)}
Route_SrvCtxs == One
Route_SrvIdus == One
Route_SrvIdss == One
Route_CliCtxs == One
Route_CliIdus == One
Route_CliIdss == One
Route_CliKsfs == {0}
Route_MutPlan == << <<"fin", "valid">> >>
=============================================================================

SPECIFICATION MCSpec
CONSTANTS
  SetupIds = {1,2,3}
  RegIds = {1}
  FileIds = {1}
  CliIds = {1}
  SrvIds = {1}
  TrackObs = TRUE
  TrackDeps = FALSE
  Dev = "none"
  SetupPlan <- Bind_SetupPlan
  RegPlan <- Bind_RegPlan
  RegIdus <- Bind_RegIdus
  RegIdss <- Bind_RegIdss
  RegKsfs <- Bind_RegKsfs
  CliPw <- Bind_CliPw
  SrvSetups <- Bind_SrvSetups
  SrvRecs <- Bind_SrvRecs
  SrvCids <- Bind_SrvCids
  SrvCtxs <- Bind_SrvCtxs
  SrvIdus <- Bind_SrvIdus
  SrvIdss <- Bind_SrvIdss
  CliCtxs <- Bind_CliCtxs
  CliIdus <- Bind_CliIdus
  CliIdss <- Bind_CliIdss
  CliKsfs <- Bind_CliKsfs
  MutPlan <- Bind_MutPlan
  Splice = FALSE
  Reloads = FALSE
  ExtFail = FALSE
  MaxFree = 3
INVARIANT Agreement
INVARIANT ClientAcceptsOnlyMatched
INVARIANT ServerAcceptsOnlyMatched
INVARIANT ServerCompletes
INVARIANT SessionKeysDistinct
INVARIANT FakeNeverCompletes
INVARIANT EvalIndependentOfRecord
INVARIANT FakeFieldsFresh
INVARIANT ReportedKeyIsSetupKey
INVARIANT Oblivious
INVARIANT ExportKeySeparated
INVARIANT NoSecretOnWire
INVARIANT EmitClientDone
CONSTRAINT Bound
CONSTRAINT AtMostOneDeviation
CHECK_DEADLOCK FALSE

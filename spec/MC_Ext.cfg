SPECIFICATION MCSpec
CONSTANTS
  SetupIds = {1,2,3,4,5}
  RegIds = {1}
  FileIds = {1}
  CliIds = {1}
  SrvIds = {1,2,3}
  TrackObs = FALSE
  TrackDeps = FALSE
  Dev = "none"
  SetupPlan <- Ext_SetupPlan
  RegPlan <- Ext_RegPlan
  RegIdus <- Ext_RegIdus
  RegIdss <- Ext_RegIdss
  RegKsfs <- Ext_RegKsfs
  CliPw <- Ext_CliPw
  SrvSetups <- Ext_SrvSetups
  SrvRecs <- Ext_SrvRecs
  SrvCids <- Ext_SrvCids
  SrvCtxs <- Ext_SrvCtxs
  SrvIdus <- Ext_SrvIdus
  SrvIdss <- Ext_SrvIdss
  CliCtxs <- Ext_CliCtxs
  CliIdus <- Ext_CliIdus
  CliIdss <- Ext_CliIdss
  CliKsfs <- Ext_CliKsfs
  MutPlan <- Ext_MutPlan
  Splice = FALSE
  Reloads = FALSE
  ExtFail = TRUE
  MaxFree = 100
INVARIANT Agreement
INVARIANT ClientAcceptsOnlyMatched
INVARIANT ServerAcceptsOnlyMatched
INVARIANT ServerCompletes
INVARIANT SessionKeysDistinct
INVARIANT FakeNeverCompletes
INVARIANT EvalIndependentOfRecord
INVARIANT FakeFieldsFresh
INVARIANT ReportedKeyIsSetupKey
INVARIANT Oblivious
INVARIANT ExportKeySeparated
INVARIANT NoSecretOnWire
CHECK_DEADLOCK FALSE

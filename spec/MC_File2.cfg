SPECIFICATION FileSpec
CONSTANTS
  SetupIds = {1}
  RegIds = {1,2,3}
  FileIds = {1,2,3}
  CliIds = {1,2}
  SrvIds = {1,2}
  TrackObs = FALSE
  TrackDeps = FALSE
  Dev = "none"
  SetupPlan <- File_SetupPlan
  RegPlan <- File_RegPlan
  RegIdus <- File_RegIdus
  RegIdss <- File_RegIdss
  RegKsfs <- File_RegKsfs
  CliPw <- File_CliPw
  SrvSetups <- File_SrvSetups
  SrvRecs <- File_SrvRecs
  SrvCids <- File_SrvCids
  SrvCtxs <- File_SrvCtxs
  SrvIdus <- File_SrvIdus
  SrvIdss <- File_SrvIdss
  CliCtxs <- File_CliCtxs
  CliIdus <- File_CliIdus
  CliIdss <- File_CliIdss
  CliKsfs <- File_CliKsfs
  MutPlan <- File_MutPlan
  Splice = FALSE
  Reloads = FALSE
  ExtFail = FALSE
  MaxFree = 100
INVARIANT Agreement
INVARIANT ClientAcceptsOnlyMatched
INVARIANT ServerAcceptsOnlyMatched
INVARIANT ServerCompletes
INVARIANT SessionKeysDistinct
INVARIANT FakeNeverCompletes
INVARIANT EvalIndependentOfRecord
INVARIANT FakeFieldsFresh
INVARIANT ReportedKeyIsSetupKey
INVARIANT Oblivious
INVARIANT ExportKeySeparated
INVARIANT NoSecretOnWire
INVARIANT AcceptedOnlyOnWholeFile
CHECK_DEADLOCK FALSE

------------------------------ MODULE MC_Ksf ------------------------------
(* Key stretching (C15): instance at registration x instance at login (absent, explicit default, two alternatives). *)
EXTENDS MCBase

A(n) == Atom(n)
Plan(pw, cid, s, idu, ids, ksf) == [pw1 |-> A(pw), pw2 |-> A(pw), cid |-> A(cid), s |-> s,
                                    idu |-> idu, ids |-> ids, ksf |-> ksf]
One == {NoneV}
Ksf_SetupPlan == << [op |-> "new", tape |-> 1] >>
\* two registrations of the same password under the SAME credential identifier (their masking keys
\* are equal exactly when their KSF instances are) and one under another identifier
Ksf_RegPlan == << Plan(1, 11, 1, NoneV, NoneV, 99), Plan(1, 11, 1, NoneV, NoneV, 99), Plan(1, 12, 1, NoneV, NoneV, 0) >>
Ksf_RegIdus == One
Ksf_RegIdss == One
Ksf_RegKsfs == {0, 1, 2}
Ksf_CliPw   == [c \in CliIds |-> <<A(1), A(1)>>]
Ksf_SrvSetups == {1}
Ksf_SrvRecs == {1, 2, 3}
Ksf_SrvCids == {A(11), A(12)}
Ksf_SrvCtxs == One
Ksf_SrvIdus == One
Ksf_SrvIdss == One
Ksf_CliCtxs == One
Ksf_CliIdus == One
Ksf_CliIdss == One
Ksf_CliKsfs == {0, 1, 2, 3}
Ksf_MutPlan == << >>
=============================================================================

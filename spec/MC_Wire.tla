------------------------------ MODULE MC_Wire ------------------------------
EXTENDS Wire

O(name, og, Noe, Nok, Nh) == [name |-> name, og |-> og, Noe |-> Noe, Nok |-> Nok, Nh |-> Nh]
K(name, kg, Npk, Nsk)     == [name |-> name, kg |-> kg, Npk |-> Npk, Nsk |-> Nsk]
Oprfs == { O("ristretto255-SHA512", "rist", 32, 32, 64), O("P256-SHA256", "nist", 33, 32, 32),
           O("P384-SHA384", "nist", 49, 48, 48), O("P521-SHA512", "nist", 67, 66, 64) }
Kes   == { K("ristretto255", "rist", 32, 32), K("P-256", "nist", 33, 32), K("P-384", "nist", 49, 48),
           K("P-521", "nist", 67, 66), K("Curve25519", "x25519", 32, 32) }
Mk(o, k) == [name |-> o.name \o "/" \o k.name, og |-> o.og, kg |-> k.kg, Noe |-> o.Noe, Nok |-> o.Nok,
             Nh |-> o.Nh, Npk |-> k.Npk, Nsk |-> k.Nsk]
AllSuites == {Mk(o, k) : o \in Oprfs, k \in Kes}
Diagonal  == {s \in AllSuites : s.name \in {"ristretto255-SHA512/ristretto255", "P256-SHA256/P-256",
                 "P384-SHA384/P-384", "P521-SHA512/P-521", "ristretto255-SHA512/Curve25519"}}
NoneFixed == {}
AllFixed == {"D1", "D2", "D3"}
NotD1 == {"D2", "D3"}
NotD2 == {"D1", "D3"}
NotD3 == {"D1", "D2"}
=============================================================================

SPECIFICATION MCSpec
CONSTANTS
  SetupIds = {1}
  RegIds = {1,2}
  FileIds = {1,2}
  CliIds = {1,2}
  SrvIds = {1,2}
  TrackObs = FALSE
  TrackDeps = FALSE
  Dev = "none"
  SetupPlan <- RouteId_SetupPlan
  RegPlan <- RouteId_RegPlan
  RegIdus <- RouteId_RegIdus
  RegIdss <- RouteId_RegIdss
  RegKsfs <- RouteId_RegKsfs
  CliPw <- RouteId_CliPw
  SrvSetups <- RouteId_SrvSetups
  SrvRecs <- RouteId_SrvRecs
  SrvCids <- RouteId_SrvCids
  SrvCtxs <- RouteId_SrvCtxs
  SrvIdus <- RouteId_SrvIdus
  SrvIdss <- RouteId_SrvIdss
  CliCtxs <- RouteId_CliCtxs
  CliIdus <- RouteId_CliIdus
  CliIdss <- RouteId_CliIdss
  CliKsfs <- RouteId_CliKsfs
  MutPlan <- RouteId_MutPlan
  Splice = FALSE
  Reloads = FALSE
  ExtFail = FALSE
  MaxFree = 100
INVARIANT Agreement
INVARIANT ClientAcceptsOnlyMatched
INVARIANT ServerAcceptsOnlyMatched
INVARIANT ServerCompletes
INVARIANT SessionKeysDistinct
INVARIANT FakeNeverCompletes
INVARIANT EvalIndependentOfRecord
INVARIANT FakeFieldsFresh
INVARIANT ReportedKeyIsSetupKey
INVARIANT Oblivious
INVARIANT ExportKeySeparated
INVARIANT NoSecretOnWire
CHECK_DEADLOCK FALSE

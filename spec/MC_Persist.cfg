SPECIFICATION MCSpec
CONSTANTS
  SetupIds = {1}
  RegIds = {1}
  FileIds = {1}
  CliIds = {1,2}
  SrvIds = {1,2}
  TrackObs = FALSE
  TrackDeps = FALSE
  Dev = "none"
  SetupPlan <- Persist_SetupPlan
  RegPlan <- Persist_RegPlan
  RegIdus <- Persist_RegIdus
  RegIdss <- Persist_RegIdss
  RegKsfs <- Persist_RegKsfs
  CliPw <- Persist_CliPw
  SrvSetups <- Persist_SrvSetups
  SrvRecs <- Persist_SrvRecs
  SrvCids <- Persist_SrvCids
  SrvCtxs <- Persist_SrvCtxs
  SrvIdus <- Persist_SrvIdus
  SrvIdss <- Persist_SrvIdss
  CliCtxs <- Persist_CliCtxs
  CliIdus <- Persist_CliIdus
  CliIdss <- Persist_CliIdss
  CliKsfs <- Persist_CliKsfs
  MutPlan <- Persist_MutPlan
  Splice = FALSE
  Reloads = TRUE
  ExtFail = FALSE
  MaxFree = 9
INVARIANT Agreement
INVARIANT ClientAcceptsOnlyMatched
INVARIANT ServerAcceptsOnlyMatched
INVARIANT ServerCompletes
INVARIANT SessionKeysDistinct
INVARIANT FakeNeverCompletes
INVARIANT EvalIndependentOfRecord
INVARIANT FakeFieldsFresh
INVARIANT ReportedKeyIsSetupKey
INVARIANT Oblivious
INVARIANT ExportKeySeparated
INVARIANT NoSecretOnWire
PROPERTY ReloadIsIdentity
CHECK_DEADLOCK FALSE
CONSTRAINT Bound

SPECIFICATION MCSpec
CONSTANTS
  SetupIds = {1}
  RegIds = {1,2,3}
  FileIds = {1,2,3}
  CliIds = {1,2}
  SrvIds = {1,2}
  TrackObs = TRUE
  TrackDeps = FALSE
  Dev = "none"
  SetupPlan <- Ksf_SetupPlan
  RegPlan <- Ksf_RegPlan
  RegIdus <- Ksf_RegIdus
  RegIdss <- Ksf_RegIdss
  RegKsfs <- Ksf_RegKsfs
  CliPw <- Ksf_CliPw
  SrvSetups <- Ksf_SrvSetups
  SrvRecs <- Ksf_SrvRecs
  SrvCids <- Ksf_SrvCids
  SrvCtxs <- Ksf_SrvCtxs
  SrvIdus <- Ksf_SrvIdus
  SrvIdss <- Ksf_SrvIdss
  CliCtxs <- Ksf_CliCtxs
  CliIdus <- Ksf_CliIdus
  CliIdss <- Ksf_CliIdss
  CliKsfs <- Ksf_CliKsfs
  MutPlan <- Ksf_MutPlan
  Splice = FALSE
  Reloads = FALSE
  ExtFail = FALSE
  MaxFree = 6
INVARIANT Agreement
INVARIANT ClientAcceptsOnlyMatched
INVARIANT ServerAcceptsOnlyMatched
INVARIANT ServerCompletes
INVARIANT SessionKeysDistinct
INVARIANT FakeNeverCompletes
INVARIANT EvalIndependentOfRecord
INVARIANT FakeFieldsFresh
INVARIANT ReportedKeyIsSetupKey
INVARIANT Oblivious
INVARIANT ExportKeySeparated
INVARIANT NoSecretOnWire
INVARIANT EmitAtBound
CONSTRAINT Bound
CHECK_DEADLOCK FALSE

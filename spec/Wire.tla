-------------------------------- MODULE Wire --------------------------------
(***************************************************************************)
(* The eleven decoders of opaque-ke (6 messages, password file, server     *)
(* setup, 3 in-flight states), modelled OPERATIONALLY: the same sequence   *)
(* of length checks and field validations as the code                      *)
(* (messages.rs:178-454, opaque.rs:206-217,245-255,365-367,432-450,        *)
(* 588-595, tripledh.rs:484-660, envelope.rs:269-292, errors.rs:204-232,   *)
(* group files, voprf take_ext / deserialize_elem / deserialize_scalar).   *)
(*                                                                         *)
(* Inputs are abstract: a decoder, a suite, a length, and for every field  *)
(* of the layout a content class.  CodeDecode is what the code does;       *)
(* SpecDecode is what C10/C11 demand (accept exactly the fixed-length      *)
(* strings all of whose group fields are valid canonical encodings).  TLC  *)
(* checks that they coincide on every input of the bounded space and       *)
(* prints the complete verdict table, which the harness concretizes (all   *)
(* members of every class, all lengths) and compares with the real         *)
(* decoders -- natively and through serde.                                 *)
(*                                                                         *)
(* Fixed: the defects of the pinned tree that have been repaired in /repo  *)
(* ("D1" over-long RegistrationRequest, "D2" small-order Curve25519        *)
(* points, "D3" SEC1 compact-form aliases of NIST points).  With an        *)
(* element missing from Fixed the model is the code as it was pinned and   *)
(* TLC reports that family (spec/dev/Wire_D*.cfg).                         *)
(***************************************************************************)
EXTENDS Naturals, Sequences, FiniteSets, TLC, Json

CONSTANTS Fixed,     \* subset of {"D1", "D2", "D3"}
          Slack,     \* lengths 0 .. Total + Slack are explored
          Suites     \* set of [name, og, kg, Noe, Nok, Npk, Nsk, Nh]

Nn == 32

Decoders == {"RegistrationRequest", "RegistrationResponse", "RegistrationUpload",
             "CredentialRequest", "CredentialResponse", "CredentialFinalization",
             "ServerRegistration", "ServerSetup", "ClientRegistration", "ClientLogin",
             "ServerLogin"}

\* field = <<kind, length>>; kinds: oel (OPRF element), osc (OPRF scalar), kpk (KE public
\* key), ksk (KE private key), b (opaque bytes)
Layout(T, S) ==
    CASE T = "RegistrationRequest"    -> << <<"oel", S.Noe>> >>
      [] T = "RegistrationResponse"   -> << <<"oel", S.Noe>>, <<"kpk", S.Npk>> >>
      [] T \in {"RegistrationUpload", "ServerRegistration"}
                                      -> << <<"kpk", S.Npk>>, <<"b", S.Nh>>, <<"b", Nn>>, <<"b", S.Nh>> >>
      [] T = "CredentialRequest"      -> << <<"oel", S.Noe>>, <<"b", Nn>>, <<"kpk", S.Npk>> >>
      [] T = "CredentialResponse"     -> << <<"oel", S.Noe>>, <<"b", Nn>>, <<"b", S.Npk + Nn + S.Nh>>,
                                            <<"b", Nn>>, <<"kpk", S.Npk>>, <<"b", S.Nh>> >>
      [] T = "CredentialFinalization" -> << <<"b", S.Nh>> >>
      [] T = "ServerSetup"            -> << <<"b", S.Nh>>, <<"ksk", S.Nsk>>, <<"ksk", S.Nsk>> >>
      [] T = "ClientRegistration"     -> << <<"osc", S.Nok>>, <<"oel", S.Noe>> >>
      [] T = "ClientLogin"            -> << <<"osc", S.Nok>>, <<"oel", S.Noe>>, <<"b", Nn>>,
                                            <<"kpk", S.Npk>>, <<"ksk", S.Nsk>>, <<"b", Nn>> >>
      [] T = "ServerLogin"            -> << <<"b", S.Nh>>, <<"b", S.Nh>>, <<"b", S.Nh>> >>

RECURSIVE SumLen(_)
SumLen(L) == IF Len(L) = 0 THEN 0 ELSE Head(L)[2] + SumLen(Tail(L))
Total(T, S) == SumLen(Layout(T, S))

\* content classes per field kind and group
ElemClasses(g) ==
    CASE g = "rist"   -> {"valid", "identity", "noncanonical", "negative", "nonsquare"}
      [] g = "nist"   -> {"valid", "compact", "badtag", "offcurve", "xgep", "allzero"}
      [] g = "x25519" -> {"valid", "validhighbit", "zero", "zerononreduced", "smallorder",
                          "smallordernonreduced"}
ScalarClasses(g) ==
    CASE g = "rist"   -> {"valid", "zero", "georder"}
      [] g = "nist"   -> {"valid", "zero", "georder"}
      [] g = "x25519" -> {"valid", "zero", "unclamped"}
Classes(kind, S) ==
    CASE kind = "oel" -> ElemClasses(S.og)
      [] kind = "osc" -> ScalarClasses(S.og)
      [] kind = "kpk" -> ElemClasses(S.kg)
      [] kind = "ksk" -> ScalarClasses(S.kg)
      [] kind = "b"   -> {"any"}

\* what the property demands of a field: a canonical encoding of a valid, non-identity,
\* not-small-order element / of a non-zero scalar in range ("validhighbit": RFC 7748 masks the
\* top bit of u; the point is valid and the bytes re-encode to themselves)
FieldValid(kind, cls) == cls \in {"valid", "validhighbit", "any"}

\* what the code's group decoders accept
CodeAccepts(kind, g, cls) ==
    \/ FieldValid(kind, cls)
    \/ /\ "D2" \notin Fixed                  \* curve25519.rs:39-46 filtered only u = 0
       /\ kind = "kpk" /\ g = "x25519" /\ cls \in {"smallorder", "smallordernonreduced"}
    \/ /\ "D3" \notin Fixed                  \* from_sec1_bytes also takes the SEC1 "compact" form
       /\ kind \in {"oel", "kpk"} /\ g = "nist" /\ cls = "compact"   \* 0x05 || x, an alias of 0x02/0x03 || x

FieldOk(f, S, cls) ==
    CodeAccepts(f[1], IF f[1] \in {"oel", "osc"} THEN S.og ELSE S.kg, cls)

-----------------------------------------------------------------------------
\* The decoders, in the code's order of checks.  in = [T, S, n, cls]

AllFieldsOk(in) ==
    LET L == Layout(in.T, in.S) IN \A i \in 1..Len(L) : FieldOk(L[i], in.S, in.cls[i])

LenOkCode(in) ==
    LET T == in.T  S == in.S  n == in.n IN
    CASE T = "RegistrationRequest" ->
            \* voprf BlindedElement::deserialize: take_ext(Noe), the rest is ignored   (D1)
            IF "D1" \in Fixed THEN n = S.Noe ELSE n >= S.Noe
      [] T = "RegistrationResponse" -> n = S.Noe + S.Npk                       \* check_slice_size
      [] T \in {"RegistrationUpload", "ServerRegistration"} ->
            \* at-least(Npk + Nh), then Envelope::deserialize: >= Nn, then mac exact Nh
            /\ n >= S.Npk + S.Nh
            /\ n - (S.Npk + S.Nh) >= Nn
            /\ n - (S.Npk + S.Nh) - Nn = S.Nh
      [] T = "CredentialRequest" ->
            \* at-least(Noe), then Ke1Message::deserialize exact (Nn + Npk)
            /\ n >= S.Noe
            /\ n - S.Noe = Nn + S.Npk
      [] T = "CredentialResponse" ->
            \* at-least(total), then Ke2Message::deserialize: >= Nn, >= Npk, mac exact Nh
            LET head == S.Noe + Nn + (S.Npk + Nn + S.Nh) IN
            /\ n >= head + Nn + S.Npk + S.Nh
            /\ n - head >= Nn
            /\ n - head - Nn >= S.Npk
            /\ n - head - Nn - S.Npk = S.Nh
      [] T = "CredentialFinalization" -> n = S.Nh
      [] T = "ServerSetup"        -> n = S.Nh + S.Nsk + S.Nsk
      [] T = "ClientRegistration" -> n = S.Nok + S.Noe
      [] T = "ClientLogin"        ->
            \* exact total; Ke1State::deserialize is at-least on an exactly sized slice
            n = S.Nok + (S.Noe + Nn + S.Npk) + (S.Nsk + Nn)
      [] T = "ServerLogin"        -> n = 3 * S.Nh

CodeDecode(in) == IF LenOkCode(in) /\ AllFieldsOk(in) THEN "Ok" ELSE "Err"

SpecDecode(in) ==
    LET L == Layout(in.T, in.S) IN
    IF in.n = Total(in.T, in.S) /\ \A i \in 1..Len(L) : FieldValid(L[i][1], in.cls[i])
    THEN "Ok" ELSE "Err"

-----------------------------------------------------------------------------
\* The bounded input space: every length 0 .. Total + Slack with all fields valid, and
\* every class vector at the exact length and one byte longer.

RECURSIVE ClassVectors(_, _)
ClassVectors(L, S) ==
    IF Len(L) = 0 THEN {<<>>}
    ELSE {<<c>> \o rest : c \in Classes(Head(L)[1], S), rest \in ClassVectors(Tail(L), S)}

ValidVector(L) == [i \in 1..Len(L) |-> IF L[i][1] = "b" THEN "any" ELSE "valid"]

VARIABLE in
Start == [T |-> "none", S |-> CHOOSE S \in Suites : TRUE, n |-> 0, cls |-> <<>>]
Init == in = Start
\* Two-level enumeration (start -> one header state per (suite, decoder) -> its inputs) so that
\* TLC de-duplicates by fingerprint and works in parallel.
Next == \/ /\ in.T = "none"
           /\ \E S \in Suites, T \in Decoders : in' = [T |-> "hdr", S |-> S, n |-> 0, cls |-> <<T>>]
        \/ /\ in.T = "hdr"
           /\ LET T == in.cls[1]  S == in.S IN
              \E n \in 0..(Total(T, S) + Slack) :
                \E v \in (IF n \in {Total(T, S), Total(T, S) + 1}
                          THEN ClassVectors(Layout(T, S), S) ELSE {ValidVector(Layout(T, S))}) :
                  in' = [T |-> T, S |-> S, n |-> n, cls |-> v]
Spec == Init /\ [][Next]_in
Real == in.T \notin {"none", "hdr"}

\* C10: accept => exact length (and therefore re-encoding = input, every accepted class being
\*      re-encoded verbatim); C11: accept => every group field valid; completeness: every
\*      valid encoding is accepted; C12: the decoder is defined on every input (TLC evaluates it)
Strict     == (Real /\ CodeDecode(in) = "Ok") => in.n = Total(in.T, in.S)
NoInvalid  == (Real /\ CodeDecode(in) = "Ok") =>
                 \A i \in 1..Len(Layout(in.T, in.S)) : FieldValid(Layout(in.T, in.S)[i][1], in.cls[i])
Complete   == (Real /\ SpecDecode(in) = "Ok") => CodeDecode(in) = "Ok"
Conforms   == Real => CodeDecode(in) = SpecDecode(in)

\* the verdict table for the harness: one line per input class
EmitRow == ~Real \/ PrintT(<<"ROW", ToJson([T |-> in.T, suite |-> in.S.name, n |-> in.n,
                                   total |-> Total(in.T, in.S), cls |-> in.cls,
                                   verdict |-> SpecDecode(in)])>>)
=============================================================================

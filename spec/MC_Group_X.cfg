SPECIFICATION Spec
CONSTANTS
  KeyClasses <- XClasses
  Codecs <- AllCodecs
INVARIANT Symmetric
INVARIANT PublicConsistent
INVARIANT Emit
CHECK_DEADLOCK FALSE

------------------------------ MODULE MC_Obliv ------------------------------
(* Obliviousness and per-credential keying (C14): the same password registered twice, under another credential identifier, another password, another seed, and the same seed under another static key; server evaluations with and without a record, under both static keys. *)
EXTENDS MCBase

A(n) == Atom(n)
Plan(pw, cid, s, idu, ids, ksf) == [pw1 |-> A(pw), pw2 |-> A(pw), cid |-> A(cid), s |-> s,
                                    idu |-> idu, ids |-> ids, ksf |-> ksf]
One == {NoneV}
Obliv_SetupPlan == << [op |-> "new", tape |-> 1], [op |-> "new", tape |-> 3],
                  [op |-> "parts", seed |-> 1, key |-> 2, fake |-> 1, mode |-> "direct"] >>
Obliv_RegPlan == << Plan(1, 11, 1, NoneV, NoneV, 0), Plan(1, 11, 1, NoneV, NoneV, 0), Plan(1, 12, 1, NoneV, NoneV, 0),
                Plan(2, 11, 1, NoneV, NoneV, 0), Plan(1, 11, 2, NoneV, NoneV, 0), Plan(1, 11, 3, NoneV, NoneV, 0) >>
Obliv_CliPw   == [c \in CliIds |-> <<A(1), A(1)>>]
Obliv_SrvSetups == {1, 2, 3}
Obliv_SrvRecs == {0, 1, 6}
Obliv_SrvCids == {A(11), A(12)}
Obliv_RegIdus == One
Obliv_RegIdss == One
Obliv_RegKsfs == {0}
Obliv_SrvCtxs == One
Obliv_SrvIdus == One
Obliv_SrvIdss == One
Obliv_CliCtxs == One
Obliv_CliIdus == One
Obliv_CliIdss == One
Obliv_CliKsfs == {0}
Obliv_MutPlan == << >>

=============================================================================

------------------------------- MODULE MC_Req -------------------------------
(* Adversarial login REQUESTS (C04 "a response made for another request", C07, C12): the server is
   started on a request that is not the unmodified request of one client -- any mixture of the three
   fields (blinded element, client nonce, client ephemeral key) of two clients' requests, or a request
   with one field replaced by an adversary-made valid / invalid value.  The server answers (it cannot
   tell), but no client completes on such an answer, and the server never completes that session. *)
EXTENDS MCBase

A(n) == Atom(n)
Plan(pw, cid, s, idu, ids, ksf) == [pw1 |-> A(pw), pw2 |-> A(pw), cid |-> A(cid), s |-> s,
                                    idu |-> idu, ids |-> ids, ksf |-> ksf]
One == {NoneV}
Req_SetupPlan == << [op |-> "new", tape |-> 1] >>
Req_RegPlan == << Plan(1, 11, 1, NoneV, NoneV, 0) >>
Req_RegIdus == One
Req_RegIdss == One
Req_RegKsfs == {0}
Req_CliPw   == [c \in CliIds |-> <<A(1), A(1)>>]
Req_SrvSetups == {1}
Req_SrvRecs == 0..1
Req_SrvCids == {A(11)}
Req_SrvCtxs == One
Req_SrvIdus == One
Req_SrvIdss == One
Req_CliCtxs == One
Req_CliIdus == One
Req_CliIdss == One
Req_CliKsfs == {0}
Req_MutPlan == << <<"blinded", "valid">>, <<"blinded", "invalid">>, <<"cnonce", "valid">>,
                  <<"cepk", "valid">>, <<"cepk", "invalid">> >>

StartedCl == {c \in CliIds : HasReq(c)}
MixedReq == {[blinded |-> cl[p[1]].req.blinded, cnonce |-> cl[p[2]].req.cnonce, cepk |-> cl[p[3]].req.cepk] :
                p \in StartedCl \X StartedCl \X StartedCl}
TamperReq(r, g) ==
    CASE g[2] = "blinded" -> [r EXCEPT !.blinded = g]
      [] g[2] = "cnonce"  -> [r EXCEPT !.cnonce = g]
      [] g[2] = "cepk"    -> [r EXCEPT !.cepk = g]
TamperedReq == {TamperReq(cl[c].req, g) : c \in StartedCl,
                                         g \in {x \in garbage : x[2] \in {"blinded", "cnonce", "cepk"}}}

ReqSLogStart ==
    /\ NextSrv # 0
    /\ \E req \in MixedReq \cup TamperedReq, u \in SrvRecs :
         /\ u # 0 => files[u].st = "stored"
         /\ SLogStart(NextSrv, 1, RecChoice(u), req, A(11), NoneV, NoneV, NoneV, 300 + NextSrv, FALSE)

ReqFree ==
    /\ phase > PrefixLen
    /\ (FreeCLogStart \/ ReqSLogStart \/ FreeCLogFinish \/ FreeSLogFinish)
    /\ nfree' = nfree + 1
    /\ UNCHANGED phase
ReqNext == Prefix \/ ReqFree
ReqSpec == MCInit /\ [][ReqNext]_mcvars

\* every accepted login answers the accepting client's own, unmodified request
AcceptedOnlyOwnRequest ==
    \A c \in CliIds : CliOk(c) => \E j \in SrvIds : cl[c].from = sv[j].resp /\ sv[j].req = cl[c].req
=============================================================================

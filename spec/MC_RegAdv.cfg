SPECIFICATION MCSpec
CONSTANTS
  SetupIds = {1,2}
  RegIds = {1,2,3,4,5}
  FileIds = {1,2,3,4,5}
  CliIds = {1,2}
  SrvIds = {1,2}
  TrackObs = FALSE
  TrackDeps = FALSE
  Dev = "none"
  SetupPlan <- RegAdv_SetupPlan
  RegPlan <- RegAdv_RegPlan
  RegIdus <- RegAdv_RegIdus
  RegIdss <- RegAdv_RegIdss
  RegKsfs <- RegAdv_RegKsfs
  CliPw <- RegAdv_CliPw
  SrvSetups <- RegAdv_SrvSetups
  SrvRecs <- RegAdv_SrvRecs
  SrvCids <- RegAdv_SrvCids
  SrvCtxs <- RegAdv_SrvCtxs
  SrvIdus <- RegAdv_SrvIdus
  SrvIdss <- RegAdv_SrvIdss
  CliCtxs <- RegAdv_CliCtxs
  CliIdus <- RegAdv_CliIdus
  CliIdss <- RegAdv_CliIdss
  CliKsfs <- RegAdv_CliKsfs
  MutPlan <- RegAdv_MutPlan
  Splice = FALSE
  Reloads = FALSE
  ExtFail = FALSE
  MaxFree = 100
INVARIANT Agreement
INVARIANT ClientAcceptsOnlyMatched
INVARIANT ServerAcceptsOnlyMatched
INVARIANT ServerCompletes
INVARIANT SessionKeysDistinct
INVARIANT FakeNeverCompletes
INVARIANT EvalIndependentOfRecord
INVARIANT FakeFieldsFresh
INVARIANT ReportedKeyIsSetupKey
INVARIANT Oblivious
INVARIANT ExportKeySeparated
INVARIANT NoSecretOnWire
CHECK_DEADLOCK FALSE

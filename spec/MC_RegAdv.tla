------------------------------ MODULE MC_RegAdv ------------------------------
(* Adversary on the registration channel: reflected blinded element, evaluation replaced by an adversary-made valid / invalid element, server key substituted by another setup's (registration man-in-the-middle); followed by login attempts against whatever was registered. *)
EXTENDS MCBase

A(n) == Atom(n)
Plan(pw, cid, s, idu, ids, ksf) == [pw1 |-> A(pw), pw2 |-> A(pw), cid |-> A(cid), s |-> s,
                                    idu |-> idu, ids |-> ids, ksf |-> ksf]
One == {NoneV}
RegAdv_SetupPlan == << [op |-> "new", tape |-> 1], [op |-> "new", tape |-> 3] >>
AdvPlan(pw, cid, adv) == Plan(pw, cid, 1, NoneV, NoneV, 0) @@ [adv |-> adv, other |-> 2]
RegAdv_RegPlan == << AdvPlan(1, 11, "none"), AdvPlan(1, 12, "reflect"), AdvPlan(1, 13, "evalgbg"),
                AdvPlan(1, 14, "evalbad"), AdvPlan(1, 15, "spkother") >>
RegAdv_CliPw   == [c \in CliIds |-> <<A(1), A(1)>>]
RegAdv_SrvSetups == {1, 2}
RegAdv_SrvRecs == {0, 1, 3, 5}
RegAdv_SrvCids == {A(11), A(13), A(15)}
RegAdv_RegIdus == One
RegAdv_RegIdss == One
RegAdv_RegKsfs == {0}
RegAdv_SrvCtxs == One
RegAdv_SrvIdus == One
RegAdv_SrvIdss == One
RegAdv_CliCtxs == One
RegAdv_CliIdus == One
RegAdv_CliIdss == One
RegAdv_CliKsfs == {0}
RegAdv_MutPlan == << <<"eval", "valid">>, <<"eval", "invalid">>, <<"fin", "valid">> >>

=============================================================================

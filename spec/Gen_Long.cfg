SPECIFICATION MCSpec
CONSTANTS
  SetupIds = {1}
  RegIds = {1,2,3,4}
  FileIds = {1,2,3,4}
  CliIds = {1,2,3}
  SrvIds = {1}
  TrackObs = TRUE
  TrackDeps = FALSE
  Dev = "none"
  SetupPlan <- Long_SetupPlan
  RegPlan <- Long_RegPlan
  RegIdus <- Long_RegIdus
  RegIdss <- Long_RegIdss
  RegKsfs <- Long_RegKsfs
  CliPw <- Long_CliPw
  SrvSetups <- Long_SrvSetups
  SrvRecs <- Long_SrvRecs
  SrvCids <- Long_SrvCids
  SrvCtxs <- Long_SrvCtxs
  SrvIdus <- Long_SrvIdus
  SrvIdss <- Long_SrvIdss
  CliCtxs <- Long_CliCtxs
  CliIdus <- Long_CliIdus
  CliIdss <- Long_CliIdss
  CliKsfs <- Long_CliKsfs
  MutPlan <- Long_MutPlan
  Splice = FALSE
  Reloads = FALSE
  ExtFail = FALSE
  MaxFree = 4
INVARIANT Agreement
INVARIANT ClientAcceptsOnlyMatched
INVARIANT ServerAcceptsOnlyMatched
INVARIANT ServerCompletes
INVARIANT SessionKeysDistinct
INVARIANT FakeNeverCompletes
INVARIANT EvalIndependentOfRecord
INVARIANT FakeFieldsFresh
INVARIANT ReportedKeyIsSetupKey
INVARIANT Oblivious
INVARIANT ExportKeySeparated
INVARIANT NoSecretOnWire
INVARIANT EmitAtBoundOrRefusal
CONSTRAINT Bound
CHECK_DEADLOCK FALSE

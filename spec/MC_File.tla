------------------------------- MODULE MC_File -------------------------------
(* Password-file integrity (growth beyond the listed properties; supports C04 C06 C07): the server is
   started on a password file that is NOT the unmodified result of one registration -- any mixture of
   the four stored fields (client public key, masking key, envelope nonce, envelope MAC) of two stored
   files (another user's, or the same user's previous registration under the same password), or a file
   with one field replaced by an adversary-made valid / invalid value.  No such file lets any client
   complete a login (ClientAcceptsOnlyMatched: RegsOf(served record) is empty), and the server never
   completes on it either. *)
EXTENDS MCBase

A(n) == Atom(n)
Plan(pw, cid, s, idu, ids, ksf) == [pw1 |-> A(pw), pw2 |-> A(pw), cid |-> A(cid), s |-> s,
                                    idu |-> idu, ids |-> ids, ksf |-> ksf]
One == {NoneV}
File_SetupPlan == << [op |-> "new", tape |-> 1] >>
\* user A registers twice with the same password and identifier (same masking key, other envelope), user B once
File_RegPlan == << Plan(1, 11, 1, NoneV, NoneV, 0), Plan(1, 11, 1, NoneV, NoneV, 0), Plan(2, 12, 1, NoneV, NoneV, 0) >>
File_RegIdus == One
File_RegIdss == One
File_RegKsfs == {0}
File_CliPw   == [c \in CliIds |-> IF c = 2 THEN <<A(2), A(2)>> ELSE <<A(1), A(1)>>]
File_SrvSetups == {1}
File_SrvRecs == 1..3
File_SrvCids == {A(11), A(12)}
File_SrvCtxs == One
File_SrvIdus == One
File_SrvIdss == One
File_CliCtxs == One
File_CliIdus == One
File_CliIdss == One
File_CliKsfs == {0}
File_MutPlan == << <<"cpk", "valid">>, <<"cpk", "invalid">>, <<"mk", "valid">>, <<"envn", "valid">>,
                   <<"envm", "valid">> >>

Stored == {u \in FileIds : files[u].st = "stored"}
\* field f of the served file comes from file pick[f]
Mixed == {Rec(files[p[1]].rec.cpk, files[p[2]].rec.mk, files[p[3]].rec.envn, files[p[4]].rec.envm) :
             p \in Stored \X Stored \X Stored \X Stored}
TamperRec(r, g) ==
    CASE g[2] = "cpk"  -> [r EXCEPT !.cpk = g]
      [] g[2] = "mk"   -> [r EXCEPT !.mk = g]
      [] g[2] = "envn" -> [r EXCEPT !.envn = g]
      [] g[2] = "envm" -> [r EXCEPT !.envm = g]
Tampered == {TamperRec(files[u].rec, g) : u \in Stored, g \in {x \in garbage : x[2] \in {"cpk", "mk", "envn", "envm"}}}
Served == Mixed \cup Tampered

FileSLogStart ==
    /\ NextSrv # 0
    /\ \E rec \in Served, c \in {k \in CliIds : HasReq(k)}, cid \in SrvCids :
         SLogStart(NextSrv, 1, rec, cl[c].req, cid, NoneV, NoneV, NoneV, 300 + NextSrv, FALSE)

FileFree ==
    /\ phase > PrefixLen
    /\ (FreeCLogStart \/ FileSLogStart \/ FreeCLogFinish \/ FreeSLogFinish)
    /\ nfree' = nfree + 1
    /\ UNCHANGED phase
FileNext == Prefix \/ FileFree
FileSpec == MCInit /\ [][FileNext]_mcvars

\* every accepted login was served the unmodified file of one registration
AcceptedOnlyOnWholeFile ==
    \A c \in CliIds : CliOk(c) =>
        \E j \in SrvIds : cl[c].from = sv[j].resp /\ \E u \in Stored : sv[j].rec = files[u].rec
=============================================================================

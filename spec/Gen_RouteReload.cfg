SPECIFICATION MCSpec
CONSTANTS
  SetupIds = {1}
  RegIds = {1,2,3,4}
  FileIds = {1,2,3,4}
  CliIds = {1,2,3}
  SrvIds = {1,2}
  TrackObs = TRUE
  TrackDeps = FALSE
  Dev = "none"
  SetupPlan <- Route_SetupPlan
  RegPlan <- Route_RegPlan
  RegIdus <- Route_RegIdus
  RegIdss <- Route_RegIdss
  RegKsfs <- Route_RegKsfs
  CliPw <- Route_CliPw
  SrvSetups <- Route_SrvSetups
  SrvRecs <- Route_SrvRecs
  SrvCids <- Route_SrvCids
  SrvCtxs <- Route_SrvCtxs
  SrvIdus <- Route_SrvIdus
  SrvIdss <- Route_SrvIdss
  CliCtxs <- Route_CliCtxs
  CliIdus <- Route_CliIdus
  CliIdss <- Route_CliIdss
  CliKsfs <- Route_CliKsfs
  MutPlan <- Route_MutPlan
  Splice = FALSE
  Reloads = TRUE
  ExtFail = FALSE
  MaxFree = 9
INVARIANT Agreement
INVARIANT ClientAcceptsOnlyMatched
INVARIANT ServerAcceptsOnlyMatched
INVARIANT ServerCompletes
INVARIANT SessionKeysDistinct
INVARIANT FakeNeverCompletes
INVARIANT EvalIndependentOfRecord
INVARIANT FakeFieldsFresh
INVARIANT ReportedKeyIsSetupKey
INVARIANT Oblivious
INVARIANT ExportKeySeparated
INVARIANT NoSecretOnWire
INVARIANT EmitAtBound
CONSTRAINT Bound
CHECK_DEADLOCK FALSE

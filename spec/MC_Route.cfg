SPECIFICATION MCSpec
CONSTANTS
  SetupIds = {1}
  RegIds = {1,2,3,4}
  FileIds = {1,2,3,4}
  CliIds = {1,2,3}
  SrvIds = {1,2}
  TrackObs = FALSE
  Dev = "none"
  SetupPlan <- R_SetupPlan
  RegPlan <- R_RegPlan
  CliPw <- R_CliPw
  SrvSetups = {1}
  SrvRecs <- R_SrvRecs
  SrvCids <- R_SrvCids
  SrvCtxs <- R_One
  SrvIdus <- R_One
  SrvIdss <- R_One
  CliCtxs <- R_One
  CliIdus <- R_One
  CliIdss <- R_One
  CliKsfs <- R_Ksfs
  Tamper <- R_Tamper
  Splice = FALSE
  ForgeFin = TRUE
  Reloads = FALSE
  MaxFree = 100
INVARIANT AllInvariants
CHECK_DEADLOCK FALSE

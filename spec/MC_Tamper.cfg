SPECIFICATION MCSpec
CONSTANTS
  SetupIds = {1}
  RegIds = {1,2}
  FileIds = {1,2}
  CliIds = {1,2}
  SrvIds = {1,2}
  TrackObs = FALSE
  TrackDeps = FALSE
  Dev = "none"
  SetupPlan <- Tamper_SetupPlan
  RegPlan <- Tamper_RegPlan
  RegIdus <- Tamper_RegIdus
  RegIdss <- Tamper_RegIdss
  RegKsfs <- Tamper_RegKsfs
  CliPw <- Tamper_CliPw
  SrvSetups <- Tamper_SrvSetups
  SrvRecs <- Tamper_SrvRecs
  SrvCids <- Tamper_SrvCids
  SrvCtxs <- Tamper_SrvCtxs
  SrvIdus <- Tamper_SrvIdus
  SrvIdss <- Tamper_SrvIdss
  CliCtxs <- Tamper_CliCtxs
  CliIdus <- Tamper_CliIdus
  CliIdss <- Tamper_CliIdss
  CliKsfs <- Tamper_CliKsfs
  MutPlan <- Tamper_MutPlan
  Splice = TRUE
  Reloads = FALSE
  ExtFail = FALSE
  MaxFree = 100
INVARIANT Agreement
INVARIANT ClientAcceptsOnlyMatched
INVARIANT ServerAcceptsOnlyMatched
INVARIANT ServerCompletes
INVARIANT SessionKeysDistinct
INVARIANT FakeNeverCompletes
INVARIANT EvalIndependentOfRecord
INVARIANT FakeFieldsFresh
INVARIANT ReportedKeyIsSetupKey
INVARIANT Oblivious
INVARIANT ExportKeySeparated
INVARIANT NoSecretOnWire
CHECK_DEADLOCK FALSE

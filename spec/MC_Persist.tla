------------------------------ MODULE MC_Persist ------------------------------
(* Persistence (C13): an honest two-session run with reloads of any live state through any codec at any step boundary. *)
EXTENDS MCBase

A(n) == Atom(n)
Plan(pw, cid, s, idu, ids, ksf) == [pw1 |-> A(pw), pw2 |-> A(pw), cid |-> A(cid), s |-> s,
                                    idu |-> idu, ids |-> ids, ksf |-> ksf]
One == {NoneV}
Persist_SetupPlan == << [op |-> "new", tape |-> 1] >>
Persist_RegPlan == << Plan(1, 11, 1, NoneV, NoneV, 0) >>
Persist_RegIdus == One
Persist_RegIdss == One
Persist_RegKsfs == {0}
Persist_CliPw   == [c \in CliIds |-> <<A(1), A(1)>>]
Persist_SrvSetups == {1}
Persist_SrvRecs == {0, 1}
Persist_SrvCids == {A(11)}
Persist_SrvCtxs == One
Persist_SrvIdus == One
Persist_SrvIdss == One
Persist_CliCtxs == One
Persist_CliIdus == One
Persist_CliIdss == One
Persist_CliKsfs == {0}
Persist_MutPlan == << >>
=============================================================================

------------------------------ MODULE MC_Bind ------------------------------
(* Binding of identities, context, credential identifier and server key (C05 C06 C01): independent choices at registration, server start and client finish; setups S2 (same seed as S1, static key of S3) and S3. *)
EXTENDS MCBase

A(n) == Atom(n)
Plan(pw, cid, s, idu, ids, ksf) == [pw1 |-> A(pw), pw2 |-> A(pw), cid |-> A(cid), s |-> s,
                                    idu |-> idu, ids |-> ids, ksf |-> ksf]
One == {NoneV}
Bind_SetupPlan == << [op |-> "new", tape |-> 1], [op |-> "new", tape |-> 3],
                  [op |-> "parts", seed |-> 1, key |-> 2, fake |-> 1, mode |-> "direct"] >>
Bind_RegPlan == << Plan(1, 11, 1, Tok("any"), Tok("any"), 0) >>
\* identities: absent, explicit EMPTY (a value different from absent), two names, and the
\* explicit spelling of the default public key
Ids == {NoneV, A(0), A(31), A(32)}
Bind_RegIdus == {NoneV, A(0), A(31)}
Bind_RegIdss == {NoneV, A(0), A(31), Tok("spk"), Tok("spk3")}
Bind_RegKsfs == {0}
Bind_CliPw   == [c \in CliIds |-> <<A(1), A(1)>>]
Bind_SrvSetups == {1, 2, 3}
Bind_SrvRecs == {1}
Bind_SrvCids == {A(11), A(12)}
Bind_SrvCtxs == {NoneV, A(21), A(22)}
Bind_SrvIdus == Ids \cup {Tok("cpk")}
Bind_SrvIdss == Ids \cup {Tok("spk"), Tok("spk3")}
Bind_CliCtxs == {NoneV, A(0), A(21), A(22)}
Bind_CliIdus == Ids \cup {Tok("cpk")}
Bind_CliIdss == Ids \cup {Tok("spk"), Tok("spk3")}
Bind_CliKsfs == {0}
Bind_MutPlan == << >>

\* Covering subset for the replay direction (DESIGN.md section 5, C05): all matched baselines
\* and all behaviours that deviate from a baseline in at most ONE dimension (setup / credential
\* identifier / context / client identity / server identity), so that each mismatch dimension
\* must make the login fail on its own.
Bit(x) == IF x THEN 1 ELSE 0
Deviations ==
    LET G == regs[1]  J == sv[1]  C == cl[1] IN
    IF J.st = "none" THEN 0 ELSE
    LET S == setups[J.s]
        srvIdu == IdEff(J.idu, J.rec.cpk)
        srvIds == IdEff(J.ids, KPk(S.ssk))
        regIdu == IdEff(G.idu, G.cpk)
        regIds == IdEff(G.ids, G.spkIn)
        done   == C.st = "done" IN
      Bit(J.s # 1)
    + Bit(J.cid # RegPlan[1].cid)
    + Bit(done /\ CtxEff(J.ctx) # CtxEff(C.ctx))
    + Bit(srvIdu # regIdu \/ (done /\ IdEff(C.idu, G.cpk) # srvIdu))
    + Bit(srvIds # regIds \/ (done /\ IdEff(C.ids, KPk(S.ssk)) # srvIds))
AtMostOneDeviation == Deviations <= 1
EmitClientDone == EmitAt(cl[1].st = "done")
StopAtClientDone == cl[1].st # "done" \/ nfree <= 3

=============================================================================

SPECIFICATION Spec
CONSTANTS
  Alphabet = {0, 1, 97}
  MaxLen = 2
  Lengths = {0, 1, 255, 256, 257, 511, 512, 65535, 65536, 65537, 65791, 131071, 131072}
INVARIANT TranscriptInjective
INVARIANT AadInjective
INVARIANT LengthsInjective
INVARIANT EmitShift
INVARIANT EmitLengthsOnce
CHECK_DEADLOCK FALSE

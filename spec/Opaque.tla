------------------------------- MODULE Opaque -------------------------------
(***************************************************************************)
(* The OPAQUE system as opaque-ke implements it: server setups, client     *)
(* registration sessions, a password-file store, client and server login   *)
(* sessions, and an adversary who chooses every message that any step      *)
(* consumes (messages are ARGUMENTS of the receiving action, given field   *)
(* by field, so replay, cross-delivery, splicing and tampering are all     *)
(* just choices of arguments).                                             *)
(*                                                                         *)
(* One action = one public API call of opaque-ke = one event of the trace  *)
(* alphabet (DESIGN.md 4.9).  Each action is written in the order of the   *)
(* code's own steps, and every early exit returns the error class the code *)
(* returns:                                                                *)
(*                                                                         *)
(*   SetupNew        ServerSetup::new                  opaque.rs:160-188   *)
(*   SetupWithKey    ServerSetup::new_with_key         opaque.rs:176-188   *)
(*   SetupFromParts  ServerSetup::deserialize          opaque.rs:206-217   *)
(*   CRegStart       ClientRegistration::start         opaque.rs:269-284   *)
(*   SRegStart       ServerRegistration::start         opaque.rs:371-389   *)
(*   CRegFinish      ClientRegistration::finish        opaque.rs:289-341   *)
(*   SRegFinish      ServerRegistration::finish        opaque.rs:393-395   *)
(*   CLogStart       ClientLogin::start                opaque.rs:456-476   *)
(*   SLogStart       ServerLogin::start                opaque.rs:599-692   *)
(*   CLogFinish      ClientLogin::finish               opaque.rs:480-578   *)
(*   SLogFinish      ServerLogin::finish               opaque.rs:696-710   *)
(*   Reload          serialize/deserialize + serde of the five state types *)
(*   Mut             adversary manufactures a value (tamper / forge)       *)
(*                                                                         *)
(* Result classes: Ok, InvalidLogin, Reflected, DecodeErr (a message or    *)
(* state failed to decode), TooLong (a parameter exceeds 65535 bytes),     *)
(* Ksf, Custom (external key failed), Reject (an error whose class the     *)
(* model does not fix: two error conditions hold at once).                 *)
(***************************************************************************)
EXTENDS Terms

CONSTANTS SetupIds, RegIds, FileIds, CliIds, SrvIds,   \* finite sets of naturals
          TrackObs,                                     \* BOOLEAN: maintain tbl / hist
          TrackDeps,                                    \* BOOLEAN: events also carry, per output, the
                                                        \* set of tapes the value depends on (C17)
          Dev                                           \* "none", or the name of ONE deliberate design
                                                        \* error (spec mutant, spec/dev/*.cfg): used to
                                                        \* show that every invariant is able to fail

VARIABLES setups,   \* SetupIds -> server setup (seed, static key, fake key, key mode)
          regs,     \* RegIds   -> client registration session
          files,    \* FileIds  -> stored password file
          cl,       \* CliIds   -> client login session
          sv,       \* SrvIds   -> server login session
          garbage,  \* adversary-made values so far (set of Gbg terms)
          tbl,      \* observation: sequence of distinct output terms (value id = position)
          hist      \* observation: sequence of events

pvars == <<setups, regs, files, cl, sv, garbage>>
vars  == <<setups, regs, files, cl, sv, garbage, tbl, hist>>

-----------------------------------------------------------------------------
\* Observation: value ids by first occurrence.  Both TLC (when generating
\* behaviours) and the harness (when recording) number the outputs of an
\* execution in the same slot order, so "same numbering" <=> "term equality
\* coincides with byte equality".

RECURSIVE AddAll(_, _)
AddAll(tb, ts) ==
    IF Len(ts) = 0 THEN tb
    ELSE LET t == Head(ts) IN
         AddAll(IF \E i \in 1..Len(tb) : tb[i] = t THEN tb ELSE Append(tb, t), Tail(ts))

IdIn(tb, t) == IF \E i \in 1..Len(tb) : tb[i] = t
               THEN CHOOSE i \in 1..Len(tb) : tb[i] = t ELSE 0
IdsIn(tb, ts) == [k \in 1..Len(ts) |-> IdIn(tb, ts[k])]

\* argument encoding in events: 0 absent, -(n+1) pool atom n, i > 0 value id
Enc(t) == IF t = NoneV THEN 0 ELSE IF t[1] = "atom" THEN 0 - (t[2] + 1) ELSE IdIn(tbl, t)
\* (an id the trace never introduced decodes to a value nothing else equals: the event is then rejected
\* by comparison, not by an evaluation error)
Dec(n) == IF n = 0 THEN NoneV ELSE IF n < 0 THEN Atom((0 - n) - 1)
          ELSE IF n <= Len(tbl) THEN tbl[n] ELSE <<"unknown-id", n>>
EncAll(ts) == [k \in 1..Len(ts) |-> Enc(ts[k])]

Observe(ev, outs) ==
    IF TrackObs
    THEN LET tb == AddAll(tbl, outs) IN
         /\ tbl'  = tb
         /\ hist' = Append(hist, ev @@ [out |-> IdsIn(tb, outs)]
                                    @@ (IF TrackDeps THEN [dep |-> [k \in 1..Len(outs) |-> Tapes(outs[k])]]
                                                     ELSE <<>>))
    ELSE UNCHANGED <<tbl, hist>>

-----------------------------------------------------------------------------
\* Record shapes (uniform per variable so that TLC can compare them)

NoSetup == [st |-> "none", seed |-> NoneV, ssk |-> NoneV, fsk |-> NoneV, mode |-> "direct"]
NoReg   == [st |-> "none", pw1 |-> NoneV, blind |-> NoneV, blinded |-> NoneV,
            pw2 |-> NoneV, eval |-> NoneV, spkIn |-> NoneV, idu |-> NoneV, ids |-> NoneV, ksf |-> 0,
            res |-> "", cpk |-> NoneV, mk |-> NoneV, envn |-> NoneV, envm |-> NoneV,
            ek |-> NoneV, spk |-> NoneV]
NoRec   == [present |-> FALSE, cpk |-> NoneV, mk |-> NoneV, envn |-> NoneV, envm |-> NoneV]
NoFile  == [st |-> "none", rec |-> NoRec]
NoReq   == [blinded |-> NoneV, cnonce |-> NoneV, cepk |-> NoneV]
NoResp  == [eval |-> NoneV, mn |-> NoneV, masked |-> NoneV, snonce |-> NoneV,
            sepk |-> NoneV, mac |-> NoneV]
NoCli   == [st |-> "none", pw1 |-> NoneV, blind |-> NoneV, req |-> NoReq, esk |-> NoneV,
            pw2 |-> NoneV, from |-> NoResp, ctx |-> NoneV, idu |-> NoneV, ids |-> NoneV, ksf |-> 0,
            res |-> "", why |-> "", fin |-> NoneV, sk |-> NoneV, ek |-> NoneV, spk |-> NoneV]
NoSrv   == [st |-> "none", s |-> 0, rec |-> NoRec, req |-> NoReq, cid |-> NoneV, ctx |-> NoneV,
            idu |-> NoneV, ids |-> NoneV, res |-> "", resp |-> NoResp,
            km3 |-> NoneV, th3 |-> NoneV, sk |-> NoneV, finIn |-> NoneV, fres |-> ""]

Rec(cpk, mk, envn, envm) == [present |-> TRUE, cpk |-> cpk, mk |-> mk, envn |-> envn, envm |-> envm]
Req(b, n, e)  == [blinded |-> b, cnonce |-> n, cepk |-> e]
Resp(ev, mn, ma, sn, se, mac) ==
    [eval |-> ev, mn |-> mn, masked |-> ma, snonce |-> sn, sepk |-> se, mac |-> mac]

Init ==
    /\ setups = [s \in SetupIds |-> NoSetup]
    /\ regs   = [i \in RegIds   |-> NoReg]
    /\ files  = [u \in FileIds  |-> NoFile]
    /\ cl     = [c \in CliIds   |-> NoCli]
    /\ sv     = [j \in SrvIds   |-> NoSrv]
    /\ garbage = {}
    /\ tbl    = <<>>
    /\ hist   = <<>>

-----------------------------------------------------------------------------
\* Server setup

SPk(s) == KPk(setups[s].ssk)
CidEff(cid)   == IF Dev = "cid_ignored" THEN Atom(0) ELSE cid
KsfEff(k)     == IF Dev = "ksf_ignored" THEN 0 ELSE KsfNorm(k)
CtxTr(ctx)    == IF Dev = "ctx_not_in_transcript" THEN Atom(0) ELSE CtxEff(ctx)
SNonceTr(n)   == IF Dev = "snonce_not_in_transcript" THEN Zero("Nn") ELSE n
IdsAad(ids)   == IF Dev = "ids_not_in_aad" THEN Atom(0) ELSE ids
SpkAad(spk)   == IF Dev = "spk_not_in_aad" THEN Zero("Npk") ELSE spk

\* ServerSetup::new(rng): static key pair, then seed, then fake key pair, all from the tape
SetupNew(s, tape) ==
    /\ setups[s].st = "none"
    /\ LET seed == Rnd(tape, "seed")
           ssk  == KDk(Rnd(tape, "sk"))
           fsk  == KDk(Rnd(tape, "fake")) IN
       /\ setups' = [setups EXCEPT ![s] = [st |-> "live", seed |-> seed, ssk |-> ssk,
                                           fsk |-> fsk, mode |-> "direct"]]
       /\ Observe([ev |-> "SetupNew", id |-> s, tape |-> tape], <<seed, ssk, fsk, KPk(ssk)>>)
    /\ UNCHANGED <<regs, files, cl, sv, garbage>>

\* ServerSetup::new_with_key(rng, KeyPair::from_private_key(key)); key given directly or held
\* behind the external-key interface (one public_key call, which may fail)
SetupWithKey(s, tape, key, mode, extfail) ==
    /\ setups[s].st = "none"
    /\ mode \in {"direct", "ext"}
    /\ extfail => mode = "ext"
    /\ IF extfail
       THEN /\ UNCHANGED setups
            /\ Observe([ev |-> "SetupWithKey", id |-> s, tape |-> tape, key |-> Enc(key),
                        mode |-> mode, extfail |-> TRUE, res |-> "Custom"], <<>>)
       ELSE LET seed == Rnd(tape, "seed")
                fsk  == KDk(Rnd(tape, "fake")) IN
            /\ setups' = [setups EXCEPT ![s] = [st |-> "live", seed |-> seed, ssk |-> key,
                                                fsk |-> fsk, mode |-> mode]]
            /\ Observe([ev |-> "SetupWithKey", id |-> s, tape |-> tape, key |-> Enc(key),
                        mode |-> mode, extfail |-> FALSE, res |-> "Ok"],
                       <<seed, key, fsk, KPk(key)>>)
    /\ UNCHANGED <<regs, files, cl, sv, garbage>>

\* ServerSetup::deserialize(seed || sk || fake_sk): restores a setup, or builds one from parts
\* (same seed under another static key: the "stolen file" server of C06)
SetupFromParts(s, seed, ssk, fsk, mode, extfail) ==
    /\ setups[s].st = "none"
    /\ mode \in {"direct", "ext"}
    /\ extfail => mode = "ext"
    /\ LET res == IF IsInvalid(ssk) \/ IsInvalid(fsk) THEN "DecodeErr"
                  ELSE IF extfail THEN "Custom" ELSE "Ok" IN
       /\ setups' = IF res = "Ok"
                    THEN [setups EXCEPT ![s] = [st |-> "live", seed |-> seed, ssk |-> ssk,
                                                fsk |-> fsk, mode |-> mode]]
                    ELSE setups
       /\ Observe([ev |-> "SetupFromParts", id |-> s, parts |-> EncAll(<<seed, ssk, fsk>>),
                   mode |-> mode, extfail |-> extfail, res |-> res],
                  IF res = "Ok" THEN <<seed, ssk, fsk, KPk(ssk)>> ELSE <<>>)
    /\ UNCHANGED <<regs, files, cl, sv, garbage>>

-----------------------------------------------------------------------------
\* Registration

\* early: an over-long password may be refused by the start step already (no property says WHICH step
\* refuses it; opaque-ke as pinned blinds any length and refuses at finish) -- then nothing is produced
CRegStart(i, pw, tape, early) ==
    /\ regs[i].st = "none"
    /\ early => TooLong(pw)
    /\ IF early
       THEN /\ regs' = [regs EXCEPT ![i] = [NoReg EXCEPT !.st = "refused", !.pw1 = pw]]
            /\ Observe([ev |-> "CRegStart", id |-> i, pw |-> Enc(pw), tape |-> tape, res |-> "TooLong"], <<>>)
       ELSE LET r == Rnd(tape, "blind")
                b == Blind(pw, r) IN
            /\ regs' = [regs EXCEPT ![i] = [NoReg EXCEPT !.st = "started", !.pw1 = pw,
                                                         !.blind = r, !.blinded = b]]
            /\ Observe([ev |-> "CRegStart", id |-> i, pw |-> Enc(pw), tape |-> tape], <<b, r>>)
    /\ UNCHANGED <<setups, files, cl, sv, garbage>>

SRegStartRes(s, blinded, cid) ==
    IF IsInvalid(blinded) THEN [res |-> "DecodeErr", eval |-> NoneV, spk |-> NoneV]
    ELSE [res |-> "Ok", eval |-> OExp(blinded, OKey(setups[s].seed, CidEff(cid))), spk |-> SPk(s)]

\* stateless on the server; the stored public half of the key pair is sent (no external-key call)
SRegStart(s, blinded, cid) ==
    /\ setups[s].st = "live"
    /\ LET r == SRegStartRes(s, blinded, cid) IN
       Observe([ev |-> "SRegStart", id |-> s, req |-> Enc(blinded), cid |-> Enc(cid),
                res |-> r.res],
               IF r.res = "Ok" THEN <<r.eval, r.spk>> ELSE <<>>)
    /\ UNCHANGED pvars

CRegFinishRes(i, pw2, eval, spkIn, idu, ids, ksf, ksffail, tape) ==
    LET st   == regs[i]
        fail(r) == [res |-> r, cpk |-> NoneV, mk |-> NoneV, envn |-> NoneV, envm |-> NoneV,
                    ek |-> NoneV, spk |-> NoneV] IN
    IF IsInvalid(eval) \/ IsInvalid(spkIn) THEN fail("DecodeErr")
    ELSE IF eval = st.blinded THEN fail("Reflected")
    ELSE IF TooLong(pw2) THEN fail("TooLong")
    ELSE IF ksffail THEN fail("Ksf")
    ELSE LET rwd  == Rwd(pw2, OInv(eval, st.blind), KsfEff(ksf))
             envn == Rnd(tape, "envnonce")
             cpk  == KPk(CSk(rwd, envn)) IN
         IF TooLong(idu) \/ TooLong(ids) THEN fail("TooLong")
         ELSE [res |-> "Ok", cpk |-> cpk, mk |-> MaskKey(rwd), envn |-> envn,
               envm |-> EnvMac(rwd, envn, SpkAad(spkIn), IdsAad(IdEff(ids, spkIn)), IdEff(idu, cpk)),
               ek |-> ExportKey(rwd, envn), spk |-> spkIn]

CRegFinish(i, pw2, eval, spkIn, idu, ids, ksf, ksffail, tape) ==
    /\ regs[i].st = "started"
    /\ LET r == CRegFinishRes(i, pw2, eval, spkIn, idu, ids, ksf, ksffail, tape) IN
       /\ regs' = [regs EXCEPT ![i] = [st |-> "done", pw1 |-> @.pw1, blind |-> @.blind,
                     blinded |-> @.blinded, pw2 |-> pw2, eval |-> eval, spkIn |-> spkIn,
                     idu |-> idu, ids |-> ids, ksf |-> ksf] @@ r]
       /\ Observe([ev |-> "CRegFinish", id |-> i, pw |-> Enc(pw2), msg |-> EncAll(<<eval, spkIn>>),
                   idu |-> Enc(idu), ids |-> Enc(ids), ksf |-> ksf, ksffail |-> ksffail,
                   tape |-> tape, res |-> r.res],
                  IF r.res = "Ok" THEN <<r.cpk, r.mk, r.envn, r.envm, r.ek, r.spk>> ELSE <<>>)
    /\ UNCHANGED <<setups, files, cl, sv, garbage>>

\* ServerRegistration::finish(upload): the password file IS the upload
SRegFinish(u, rec) ==
    /\ files[u].st = "none"
    /\ rec.present
    /\ LET res == IF IsInvalid(rec.cpk) THEN "DecodeErr" ELSE "Ok" IN
       /\ files' = IF res = "Ok" THEN [files EXCEPT ![u] = [st |-> "stored", rec |-> rec]] ELSE files
       /\ Observe([ev |-> "SRegFinish", id |-> u,
                   msg |-> EncAll(<<rec.cpk, rec.mk, rec.envn, rec.envm>>), res |-> res], <<>>)
    /\ UNCHANGED <<setups, regs, cl, sv, garbage>>

-----------------------------------------------------------------------------
\* Login

CLogStart(c, pw, tape, early) ==
    /\ cl[c].st = "none"
    /\ early => TooLong(pw)
    /\ IF early
       THEN /\ cl' = [cl EXCEPT ![c] = [NoCli EXCEPT !.st = "refused", !.pw1 = pw]]
            /\ Observe([ev |-> "CLogStart", id |-> c, pw |-> Enc(pw), tape |-> tape, res |-> "TooLong"], <<>>)
       ELSE LET r   == Rnd(tape, "blind")
                esk == KDk(Rnd(tape, "eseed"))
                q   == Req(Blind(pw, r), Rnd(tape, "cnonce"), KPk(esk)) IN
            /\ cl' = [cl EXCEPT ![c] = [NoCli EXCEPT !.st = "started", !.pw1 = pw, !.blind = r,
                                                     !.req = q, !.esk = esk]]
            /\ Observe([ev |-> "CLogStart", id |-> c, pw |-> Enc(pw), tape |-> tape],
                       <<q.blinded, q.cnonce, q.cepk, r, esk>>)
    /\ UNCHANGED <<setups, regs, files, sv, garbage>>

SrvFail(r) == [res |-> r, resp |-> NoResp, km3 |-> NoneV, th3 |-> NoneV, sk |-> NoneV]

SLogStartRes(s, rec, req, cid, ctx, idu, ids, tape, extfail) ==
    LET S == setups[s] IN
    IF IsInvalid(req.blinded) \/ IsInvalid(req.cepk) \/ (rec.present /\ IsInvalid(rec.cpk))
    THEN SrvFail("DecodeErr")
    ELSE
    LET R    == IF rec.present THEN rec       \* absent record => dummy: fake public key,
                ELSE Rec(KPk(S.fsk), Rnd(tape, "fakemk"), Zero("Nn"), Zero("Nh"))  \* random masking key, zero envelope
        long == TooLong(idu) \/ TooLong(ids) \/ TooLong(CtxEff(ctx)) IN
    IF extfail THEN SrvFail(IF long THEN "Reject" ELSE "Custom")
    ELSE IF long THEN SrvFail("TooLong")
    ELSE
    LET spk    == KPk(S.ssk)                   \* through the key interface, not the stored copy
        mn     == Rnd(tape, "mnonce")
        masked == Masked(R.mk, mn, spk, R.envn, R.envm)
        idue   == IdEff(idu, R.cpk)
        idse   == IdEff(ids, spk)
        eval   == OExp(req.blinded, OKey(S.seed, CidEff(cid)))
        sesk   == KDk(Rnd(tape, "seseed"))
        sepk   == KPk(sesk)
        snonce == Rnd(tape, "snonce")
        pre    == Preamble(CtxTr(ctx), idue, req, idse, eval, mn, masked, SNonceTr(snonce), sepk)
        th     == Hash(Cat(pre))
        k      == Keys(KDh(sesk, req.cepk), KDh(S.ssk, req.cepk), KDh(sesk, R.cpk), th)
        mac    == Hmac(k.km2, th) IN
    [res |-> "Ok", resp |-> Resp(eval, mn, masked, snonce, sepk, mac),
     km3 |-> k.km3, th3 |-> Hash(Cat(Append(pre, mac))), sk |-> k.sk]

SLogStart(j, s, rec, req, cid, ctx, idu, ids, tape, extfail) ==
    /\ sv[j].st = "none"
    /\ setups[s].st = "live"
    /\ extfail => setups[s].mode = "ext"
    /\ LET r == SLogStartRes(s, rec, req, cid, ctx, idu, ids, tape, extfail) IN
       /\ sv' = [sv EXCEPT ![j] = [st |-> IF r.res = "Ok" THEN "started" ELSE "failed",
                    s |-> s, rec |-> rec, req |-> req, cid |-> cid, ctx |-> ctx, idu |-> idu,
                    ids |-> ids, finIn |-> NoneV, fres |-> ""] @@ r]
       /\ Observe([ev |-> "SLogStart", id |-> j, s |-> s,
                   rec |-> IF rec.present THEN EncAll(<<rec.cpk, rec.mk, rec.envn, rec.envm>>) ELSE <<>>,
                   msg |-> EncAll(<<req.blinded, req.cnonce, req.cepk>>), cid |-> Enc(cid),
                   ctx |-> Enc(ctx), idu |-> Enc(idu), ids |-> Enc(ids), tape |-> tape,
                   extfail |-> extfail, res |-> r.res],
                  IF r.res = "Ok"
                  THEN <<r.resp.eval, r.resp.mn, r.resp.masked, r.resp.snonce, r.resp.sepk,
                         r.resp.mac, r.km3, r.th3, r.sk>>
                  ELSE <<>>)
    /\ UNCHANGED <<setups, regs, files, cl, garbage>>

\* why: which check rejected ("pad" unmasking, "env" envelope MAC, "mac" server MAC); the
\* invalid-login CLASS is part of C02/C08 (pad, env) but not of C04/C05/C07 (mac), where only
\* rejection is demanded
CliFailW(r, w) == [res |-> r, why |-> w, fin |-> NoneV, sk |-> NoneV, ek |-> NoneV, spk |-> NoneV]
CliFail(r) == CliFailW(r, "")

CLogFinishRes(c, pw2, m, ctx, idu, ids, ksf, ksffail) ==
    LET st == cl[c] IN
    IF IsInvalid(m.eval) \/ IsInvalid(m.sepk) THEN CliFail("DecodeErr")
    ELSE IF m.eval = st.req.blinded THEN CliFail("Reflected")
    ELSE IF TooLong(pw2) THEN CliFail("TooLong")
    ELSE IF ksffail THEN CliFail("Ksf")
    ELSE
    LET rwd  == Rwd(pw2, OInv(m.eval, st.blind), KsfEff(ksf))
        mk   == MaskKey(rwd)
        long == TooLong(idu) \/ TooLong(ids) \/ TooLong(CtxEff(ctx)) IN
    \* unmasking under the wrong pad yields garbage: either the public key does not decode,
    \* or the envelope MAC fails -- InvalidLogin both ways
    IF ~(m.masked[1] = "xor" /\ m.masked[2] = Pad(mk, m.mn))
    THEN CliFailW(IF long THEN "Reject" ELSE "InvalidLogin", "pad")
    ELSE
    LET pt   == m.masked[3][2]
        spk  == pt[1]
        envn == pt[2]
        envm == pt[3]
        csk  == CSk(rwd, envn)
        idue == IdEff(idu, KPk(csk))
        idse == IdEff(ids, spk) IN
    IF TooLong(idu) \/ TooLong(ids) THEN CliFail("TooLong")
    ELSE IF Dev # "no_envelope_mac" /\ envm # EnvMac(rwd, envn, SpkAad(spk), IdsAad(idse), idue)
    THEN CliFailW(IF long THEN "Reject" ELSE "InvalidLogin", "env")
    ELSE IF long THEN CliFail("TooLong")
    ELSE
    LET pre == Preamble(CtxTr(ctx), idue, st.req, idse, m.eval, m.mn, m.masked, SNonceTr(m.snonce), m.sepk)
        th  == Hash(Cat(pre))
        k   == Keys(KDh(st.esk, m.sepk), KDh(st.esk, spk), KDh(csk, m.sepk), th) IN
    IF Dev # "no_server_mac_check" /\ m.mac # Hmac(k.km2, th) THEN CliFailW("InvalidLogin", "mac")
    ELSE [res |-> "Ok", why |-> "", fin |-> Hmac(k.km3, Hash(Cat(Append(pre, m.mac)))), sk |-> k.sk,
          ek |-> ExportKey(rwd, envn), spk |-> spk]

CLogFinish(c, pw2, m, ctx, idu, ids, ksf, ksffail) ==
    /\ cl[c].st = "started"
    /\ LET r == CLogFinishRes(c, pw2, m, ctx, idu, ids, ksf, ksffail) IN
       /\ cl' = [cl EXCEPT ![c] = [st |-> "done", pw1 |-> @.pw1, blind |-> @.blind, req |-> @.req,
                    esk |-> @.esk, pw2 |-> pw2, from |-> m, ctx |-> ctx, idu |-> idu, ids |-> ids,
                    ksf |-> ksf] @@ r]
       /\ Observe([ev |-> "CLogFinish", id |-> c, pw |-> Enc(pw2),
                   msg |-> EncAll(<<m.eval, m.mn, m.masked, m.snonce, m.sepk, m.mac>>),
                   ctx |-> Enc(ctx), idu |-> Enc(idu), ids |-> Enc(ids), ksf |-> ksf,
                   ksffail |-> ksffail, res |-> r.res, why |-> r.why],
                  IF r.res = "Ok" THEN <<r.fin, r.sk, r.ek, r.spk>> ELSE <<>>)
    /\ UNCHANGED <<setups, regs, files, sv, garbage>>

SLogFinishRes(j, fin) == IF Dev = "no_client_mac_check" \/ fin = Hmac(sv[j].km3, sv[j].th3)
                         THEN "Ok" ELSE "InvalidLogin"

SLogFinish(j, fin) ==
    /\ sv[j].st = "started"
    /\ LET r == SLogFinishRes(j, fin) IN
       /\ sv' = [sv EXCEPT ![j].st = "done", ![j].finIn = fin, ![j].fres = r]
       /\ Observe([ev |-> "SLogFinish", id |-> j, msg |-> EncAll(<<fin>>), res |-> r],
                  IF r = "Ok" THEN <<sv[j].sk>> ELSE <<>>)
    /\ UNCHANGED <<setups, regs, files, cl, garbage>>

-----------------------------------------------------------------------------
\* Persistence: saving and reloading any of the five state types, through the
\* native encoding or serde, is the identity on the abstract state (the claim
\* of C13; the harness performs the real round trip at this event).

Reload(kind, id, codec) ==
    /\ kind \in {"setup", "file", "reg", "cli", "srv"}
    /\ codec \in {"native", "bincode", "json"}
    /\ CASE kind = "setup" -> id \in SetupIds /\ setups[id].st = "live"
         [] kind = "file"  -> id \in FileIds /\ files[id].st = "stored"
         [] kind = "reg"   -> id \in RegIds /\ regs[id].st = "started"
         [] kind = "cli"   -> id \in CliIds /\ cl[id].st = "started"
         [] kind = "srv"   -> id \in SrvIds /\ sv[id].st = "started"
    /\ Observe([ev |-> "Reload", kind |-> kind, id |-> id, codec |-> codec], <<>>)
    /\ UNCHANGED pvars

\* Adversary: a value for the given message / state field that no honest party produced
\* (a mutated, re-randomised or constant field); class "invalid" = not a valid encoding of a
\* group element / scalar, so the decoder of any message containing it must refuse.
GroupFields == {"blinded", "eval", "cepk", "sepk", "cpk", "spk", "ssk", "fsk"}
ByteFields  == {"cnonce", "mn", "masked", "snonce", "mac", "fin", "mk", "envn", "envm", "seed"}
Mut(field, cls) ==
    /\ field \in GroupFields \cup ByteFields
    /\ cls \in {"valid", "invalid"}
    /\ field \in ByteFields => cls = "valid"
    /\ LET g == Gbg(field, cls, Cardinality(garbage) + 1) IN
       /\ garbage' = garbage \cup {g}
       /\ Observe([ev |-> "Mut", field |-> field, cls |-> cls], <<g>>)
    /\ UNCHANGED <<setups, regs, files, cl, sv>>
=============================================================================

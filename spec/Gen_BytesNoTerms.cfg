SPECIFICATION MCSpec
CONSTANTS
  SetupIds = {1}
  RegIds = {1,2,3}
  FileIds = {1,2,3}
  CliIds = {1,2}
  SrvIds = {1,2}
  TrackObs = TRUE
  TrackDeps = FALSE
  Dev = "none"
  SetupPlan <- Bytes_SetupPlan
  RegPlan <- Bytes_RegPlan
  RegIdus <- Bytes_RegIdus
  RegIdss <- Bytes_RegIdss
  RegKsfs <- Bytes_RegKsfs
  CliPw <- Bytes_CliPw
  SrvSetups <- Bytes_SrvSetups
  SrvRecs <- Bytes_SrvRecs
  SrvCids <- Bytes_SrvCids
  SrvCtxs <- Bytes_SrvCtxs
  SrvIdus <- Bytes_SrvIdus
  SrvIdss <- Bytes_SrvIdss
  CliCtxs <- Bytes_CliCtxs
  CliIdus <- Bytes_CliIdus
  CliIdss <- Bytes_CliIdss
  CliKsfs <- Bytes_CliKsfs
  MutPlan <- Bytes_MutPlan
  Splice = FALSE
  Reloads = FALSE
  ExtFail = FALSE
  MaxFree = 6
INVARIANT Agreement
INVARIANT ClientAcceptsOnlyMatched
INVARIANT ServerAcceptsOnlyMatched
INVARIANT ServerCompletes
INVARIANT SessionKeysDistinct
INVARIANT FakeNeverCompletes
INVARIANT EvalIndependentOfRecord
INVARIANT FakeFieldsFresh
INVARIANT ReportedKeyIsSetupKey
INVARIANT Oblivious
INVARIANT ExportKeySeparated
INVARIANT NoSecretOnWire
INVARIANT EmitAtBound
CONSTRAINT Bound
CHECK_DEADLOCK FALSE

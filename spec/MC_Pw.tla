------------------------------- MODULE MC_Pw -------------------------------
(* Split passwords (C02, C01): the API takes the password twice -- at start (blinded) and at finish
   (hashed with the unblinded evaluation).  Registrations and logins with every combination of
   (password at start, password at finish) over two passwords: a login succeeds iff BOTH agree with
   the registration's, i.e. each of the two arguments is bound. *)
EXTENDS MCBase

A(n) == Atom(n)
Plan2(p1, p2, cid) == [pw1 |-> A(p1), pw2 |-> A(p2), cid |-> A(cid), s |-> 1,
                       idu |-> NoneV, ids |-> NoneV, ksf |-> 0]
One == {NoneV}
Pw_SetupPlan == << [op |-> "new", tape |-> 1] >>
Pw_RegPlan == << Plan2(1, 1, 11), Plan2(1, 2, 11), Plan2(2, 1, 11) >>
Pw_RegIdus == One
Pw_RegIdss == One
Pw_RegKsfs == {0}
Pw_CliPw   == [c \in CliIds |-> CASE c = 1 -> <<A(1), A(1)>> [] c = 2 -> <<A(1), A(2)>>
                                  [] c = 3 -> <<A(2), A(1)>> [] OTHER -> <<A(2), A(2)>>]
Pw_SrvSetups == {1}
Pw_SrvRecs == 1..3
Pw_SrvCids == {A(11)}
Pw_SrvCtxs == One
Pw_SrvIdus == One
Pw_SrvIdss == One
Pw_CliCtxs == One
Pw_CliIdus == One
Pw_CliIdss == One
Pw_CliKsfs == {0}
Pw_MutPlan == << >>
\* a client that accepted used exactly the registration's two passwords
BothPasswordsBound ==
    \A c \in CliIds : CliOk(c) =>
        \E j \in SrvIds : cl[c].from = sv[j].resp /\
            \E i \in RegsOf(sv[j].rec) : regs[i].pw1 = cl[c].pw1 /\ regs[i].pw2 = cl[c].pw2
=============================================================================

---------------------------- MODULE OpaqueProps ----------------------------
(***************************************************************************)
(* Invariants of the OPAQUE system model.  Matched(c, j) is defined from   *)
(* WHO consumed WHAT (which request, which password file, which setup,     *)
(* which parameters); the results of the steps are COMPUTED from terms     *)
(* (MAC comparisons are term equalities).  The invariants say that the two *)
(* coincide.  spec/dev/*.cfg show each conjunct is needed.                 *)
(***************************************************************************)
EXTENDS Opaque

SrvOk(j)  == sv[j].st \in {"started", "done"} /\ sv[j].res = "Ok"
CliDone(c) == cl[c].st = "done"
CliOk(c)  == CliDone(c) /\ cl[c].res = "Ok"
RegOk(i)  == regs[i].st = "done" /\ regs[i].res = "Ok"

RecOfReg(i) == Rec(regs[i].cpk, regs[i].mk, regs[i].envn, regs[i].envm)
RegsOf(rec) == {i \in RegIds : RegOk(i) /\ RecOfReg(i) = rec}

\* Registration i was answered under OPRF seed `seed`, credential identifier `cid`
\* and static key `ssk`, and login uses the same (start, finish) passwords.
RegMatches(i, c, j) ==
    LET G == regs[i]  C == cl[c]  J == sv[j]  S == setups[J.s] IN
    /\ G.pw1 = C.pw1 /\ G.pw2 = C.pw2
    /\ G.eval = OExp(G.blinded, OKey(S.seed, J.cid))
    /\ G.spkIn = KPk(S.ssk)
    /\ KsfNorm(G.ksf) = KsfNorm(C.ksf)
    /\ IdEff(G.idu, G.cpk) = IdEff(J.idu, J.rec.cpk)
    /\ IdEff(J.idu, J.rec.cpk) = IdEff(C.idu, G.cpk)
    /\ IdEff(G.ids, G.spkIn) = IdEff(J.ids, KPk(S.ssk))
    /\ IdEff(J.ids, KPk(S.ssk)) = IdEff(C.ids, KPk(S.ssk))
    /\ CtxEff(J.ctx) = CtxEff(C.ctx)

\* The matched conversation: server session j answered client c's own request with a
\* password file whose registration agrees with this login in every bound parameter.
Matched(c, j) ==
    /\ SrvOk(j)
    /\ sv[j].req = cl[c].req
    /\ sv[j].rec.present
    /\ \E i \in RegsOf(sv[j].rec) : RegMatches(i, c, j)

Faulted(r) == r \in {"Ksf", "TooLong", "Reject", "Custom"}

\* C01: a matched conversation delivered unaltered succeeds, with equal keys and the
\* registration's export key and server public key
Agreement ==
    \A c \in CliIds, j \in SrvIds :
        (CliDone(c) /\ ~Faulted(cl[c].res) /\ Matched(c, j) /\ cl[c].from = sv[j].resp) =>
            /\ cl[c].res = "Ok"
            /\ cl[c].sk = sv[j].sk
            /\ \E i \in RegsOf(sv[j].rec) :
                   RegMatches(i, c, j) /\ cl[c].ek = regs[i].ek /\ cl[c].spk = regs[i].spk
            /\ cl[c].spk = KPk(setups[sv[j].s].ssk)

\* C02 C04 C05 C06 C07 C08: the client accepts only the unaltered response of a matched session
ClientAcceptsOnlyMatched ==
    \A c \in CliIds : CliOk(c) => \E j \in SrvIds : cl[c].from = sv[j].resp /\ Matched(c, j)

\* C03 C07: the server accepts only the finalization of the client that accepted its response
ServerAcceptsOnlyMatched ==
    \A j \in SrvIds : (sv[j].st = "done" /\ sv[j].fres = "Ok") =>
        \E c \in CliIds : CliOk(c) /\ cl[c].from = sv[j].resp /\ cl[c].fin = sv[j].finIn

\* C01 (server half): the genuine finalization is accepted
ServerCompletes ==
    \A j \in SrvIds, c \in CliIds :
        (sv[j].st = "done" /\ CliOk(c) /\ cl[c].from = sv[j].resp /\ cl[c].fin = sv[j].finIn)
            => sv[j].fres = "Ok"

\* C07: keys agree within a session, and differ across sessions
SessionKeysDistinct ==
    /\ \A c1, c2 \in CliIds : (c1 # c2 /\ CliOk(c1) /\ CliOk(c2)) => cl[c1].sk # cl[c2].sk
    /\ \A j1, j2 \in SrvIds : (j1 # j2 /\ SrvOk(j1) /\ SrvOk(j2)) => sv[j1].sk # sv[j2].sk
    /\ \A c \in CliIds, j \in SrvIds :
           (CliOk(c) /\ SrvOk(j) /\ cl[c].sk = sv[j].sk) => cl[c].from = sv[j].resp

\* C08: an absent record is answered with the same evaluation as a present one, with
\* fresh other fields, and can never be completed
FakeNeverCompletes ==
    \A j \in SrvIds : (SrvOk(j) /\ ~sv[j].rec.present) =>
        /\ sv[j].fres # "Ok"
        /\ \A c \in CliIds : (CliDone(c) /\ cl[c].from = sv[j].resp) => ~(cl[c].res = "Ok")
EvalIndependentOfRecord ==
    \A j1, j2 \in SrvIds :
        (SrvOk(j1) /\ SrvOk(j2) /\ sv[j1].req.blinded = sv[j2].req.blinded
           /\ sv[j1].cid = sv[j2].cid /\ setups[sv[j1].s].seed = setups[sv[j2].s].seed)
        => sv[j1].resp.eval = sv[j2].resp.eval
FakeFieldsFresh ==
    \A j1, j2 \in SrvIds :
        (j1 # j2 /\ SrvOk(j1) /\ SrvOk(j2) /\ ~sv[j1].rec.present) =>
            /\ sv[j1].resp.mn # sv[j2].resp.mn
            /\ sv[j1].resp.masked # sv[j2].resp.masked
            /\ sv[j1].resp.snonce # sv[j2].resp.snonce
            /\ sv[j1].resp.sepk # sv[j2].resp.sepk
            /\ sv[j1].resp.mac # sv[j2].resp.mac

\* C06: the public key reported at registration and at login is the setup's
ReportedKeyIsSetupKey ==
    \A c \in CliIds : CliOk(c) =>
        \E j \in SrvIds : cl[c].from = sv[j].resp /\ cl[c].spk = KPk(setups[sv[j].s].ssk)

\* C14: the masking key is a function of (passwords, OPRF key, KSF) and nothing else;
\* requests differ even for equal passwords
Oblivious ==
    \A i1, i2 \in RegIds : (RegOk(i1) /\ RegOk(i2)) =>
        /\ ( (regs[i1].pw2 = regs[i2].pw2
                /\ OInv(regs[i1].eval, regs[i1].blind) = OInv(regs[i2].eval, regs[i2].blind)
                /\ KsfNorm(regs[i1].ksf) = KsfNorm(regs[i2].ksf))
             <=> regs[i1].mk = regs[i2].mk )
        /\ (regs[i1].blind # regs[i2].blind => regs[i1].blinded # regs[i2].blinded)

\* C16: export keys are per registration, equal at every login of that registration
\* (Agreement), and no secret travels or is stored
ExportKeySeparated ==
    \A i1, i2 \in RegIds : (i1 # i2 /\ RegOk(i1) /\ RegOk(i2) /\ regs[i1].envn # regs[i2].envn)
        => regs[i1].ek # regs[i2].ek
WireValues ==
    UNION { {regs[i].blinded, regs[i].eval, regs[i].spkIn, regs[i].cpk, regs[i].mk,
             regs[i].envn, regs[i].envm} : i \in {k \in RegIds : RegOk(k)} }
    \cup UNION { {cl[c].req.blinded, cl[c].req.cnonce, cl[c].req.cepk}
                 : c \in {k \in CliIds : cl[k].st \notin {"none", "refused"}} }
    \cup UNION { {sv[j].resp.eval, sv[j].resp.mn, sv[j].resp.masked, sv[j].resp.snonce,
                  sv[j].resp.sepk, sv[j].resp.mac} : j \in {k \in SrvIds : SrvOk(k)} }
    \cup { cl[c].fin : c \in {k \in CliIds : CliOk(k)} }
Secrets ==
    { regs[i].ek : i \in {k \in RegIds : RegOk(k)} }
    \cup { cl[c].ek : c \in {k \in CliIds : CliOk(k)} }
    \cup { cl[c].sk : c \in {k \in CliIds : CliOk(k)} }
    \cup { sv[j].sk : j \in {k \in SrvIds : SrvOk(k)} }
NoSecretOnWire == WireValues \cap Secrets = {}

\* C13 (action property): a reload changes no protocol variable
AllIds == SetupIds \cup RegIds \cup FileIds \cup CliIds \cup SrvIds
ReloadIsIdentity == [][ (\E k \in {"setup", "file", "reg", "cli", "srv"}, id \in AllIds,
                            co \in {"native", "bincode", "json"} : Reload(k, id, co))
                        => UNCHANGED pvars ]_vars

AllInvariants ==
    /\ Agreement
    /\ ClientAcceptsOnlyMatched
    /\ ServerAcceptsOnlyMatched
    /\ ServerCompletes
    /\ SessionKeysDistinct
    /\ FakeNeverCompletes
    /\ EvalIndependentOfRecord
    /\ FakeFieldsFresh
    /\ ReportedKeyIsSetupKey
    /\ Oblivious
    /\ ExportKeySeparated
    /\ NoSecretOnWire
=============================================================================

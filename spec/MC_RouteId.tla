----------------------------- MODULE MC_RouteId -----------------------------
(* Cross-user routing with NAMED users (C07 "for the same registered user"): two users who share a password,
   registered under different client identities and credential identifiers (server identity defaulted).  Every
   (request, record, credential id, client name) at the server, every response with every client name at the
   client: a login completes only for the user whose record, identifier and name were used throughout. *)
EXTENDS MCBase

A(n) == Atom(n)
Plan(pw, cid, s, idu, ids, ksf) == [pw1 |-> A(pw), pw2 |-> A(pw), cid |-> A(cid), s |-> s,
                                    idu |-> idu, ids |-> ids, ksf |-> ksf]
One == {NoneV}
RouteId_SetupPlan == << [op |-> "new", tape |-> 1] >>
RouteId_RegPlan == << Plan(1, 11, 1, A(31), NoneV, 0), Plan(1, 12, 1, A(32), NoneV, 0) >>
RouteId_RegIdus == One
RouteId_RegIdss == One
RouteId_RegKsfs == {0}
RouteId_CliPw   == [c \in CliIds |-> <<A(1), A(1)>>]
RouteId_SrvSetups == {1}
RouteId_SrvRecs == {1, 2}
RouteId_SrvCids == {A(11), A(12)}
RouteId_SrvCtxs == One
RouteId_SrvIdus == {A(31), A(32)}
RouteId_SrvIdss == One
RouteId_CliCtxs == One
RouteId_CliIdus == {A(31), A(32)}
RouteId_CliIdss == One
RouteId_CliKsfs == {0}
RouteId_MutPlan == << >>
=============================================================================

------------------------------- MODULE Terms -------------------------------
(***************************************************************************)
(* Symbolic byte strings and cryptography for the OPAQUE model.            *)
(*                                                                         *)
(* Every byte string the system can produce is a TERM: a tuple whose first *)
(* component is a string tag.  Equal tags imply equal shapes (including    *)
(* the TLC type of every atom position) so that TLC can compare and        *)
(* fingerprint heterogeneous collections of terms.  Distinct terms denote  *)
(* distinct byte strings (perfect cryptography); Diffie-Hellman and OPRF   *)
(* blinding carry exactly their algebraic equations.                       *)
(*                                                                         *)
(* Group elements, scalars and keys stand for their canonical encodings:   *)
(* there is no separate "serialize" constructor, the harness-side term     *)
(* evaluator (harness/src/eval.rs) serializes whenever a group value       *)
(* occurs in a byte context.                                               *)
(*                                                                         *)
(* The operators below ARE the RFC 9807 / RFC 9497 formulas; the evaluator *)
(* interprets only the primitive constructors (hash, hmac, extract,        *)
(* expand, ksf, xor, cat, lp, i2, lit, zero, h2c, oel, okey, kdk, kpk,     *)
(* kdh), so a formula exists in exactly one place.                         *)
(***************************************************************************)
EXTENDS Naturals, Sequences, FiniteSets, Bags, TLC, SequencesExt

NoneV == <<"none">>                    \* absent optional parameter

\* ---- leaves ------------------------------------------------------------
Atom(n)          == <<"atom", n>>      \* caller data from the shared pool; 0 = empty string
Rnd(tape, role)  == <<"rnd", tape, role>>   \* fresh random value: named by the tape the
                                            \* action instance runs on and its role
Gbg(kind, cls, n) == <<"gbg", kind, cls, n>> \* adversary-made value; cls in {"valid","invalid"}
Lit(s)           == <<"lit", s>>       \* ASCII label
Zero(len)        == <<"zero", len>>    \* len (symbolic) zero bytes
I2(n, k)         == <<"i2", n, k>>     \* I2OSP(n, k); n symbolic length name or number

\* Atoms with index >= LongFrom denote byte strings longer than 65535 bytes.
LongFrom == 90
TooLong(t) == t[1] = "atom" /\ t[2] >= LongFrom
IsInvalid(t) == t[1] = "gbg" /\ t[3] = "invalid"

\* ---- byte-string constructors -------------------------------------------
Cat(seq)        == <<"cat", seq>>            \* concatenation
LP(k, t)        == <<"lp", k, t>>            \* I2OSP(len(t), k) || t
Hash(t)         == <<"hash", t>>
Hmac(k, t)      == <<"hmac", k, t>>
Extract(ikm)    == <<"extract", ikm>>        \* HKDF-Extract(salt = "", ikm)
Expand(prk, info, len) == <<"expand", prk, info, len>>   \* len: symbolic length name
Ksf(inst, t)    == <<"ksf", inst, t>>        \* key-stretching instance inst (0 = default)
Xor(pad, pt)    == <<"xor", pad, pt>>

\* ---- OPRF group (RFC 9497, mode 0) ----------------------------------------
\* An element is <<"oel", base, bag of scalars>>: base^(product of the bag).
H2C(pw)     == <<"h2c", pw>>                 \* HashToGroup(pw, "HashToGroup-" || contextString)
ElemOf(x)   == IF x[1] = "oel" THEN x ELSE <<"oel", x, EmptyBag>>
OExp(x, k)  == LET e == ElemOf(x) IN <<"oel", e[2], e[3] (+) SetToBag({k})>>
OInv(x, r)  == LET e == ElemOf(x) IN
               IF BagIn(r, e[3]) THEN <<"oel", e[2], e[3] (-) SetToBag({r})>>
                                 ELSE <<"oel", e[2], e[3] (+) SetToBag({<<"inv", r>>})>>
Blind(pw, r)   == OExp(H2C(pw), r)
\* per-credential OPRF key: DeriveKeyPair(Expand(seed, cid || "OprfKey", Nok), "OPAQUE-DeriveKeyPair")
OKey(seed, cid) == <<"okey", Expand(seed, Cat(<<cid, Lit("OprfKey")>>), "Nok")>>
Finalize(pw, e) == Hash(Cat(<<LP(2, pw), LP(2, e), Lit("Finalize")>>))

\* ---- key-exchange group ---------------------------------------------------
KDk(seed)   == <<"kdk", seed>>     \* DeriveDiffieHellmanKeyPair(seed).sk  (RFC 7748 clamp for X25519)
KPk(sk)     == <<"kpk", sk>>       \* public key of sk (as its encoding)
KDh(sk, pk) == IF pk[1] = "kpk" THEN <<"kdh", {sk, pk[2]}>>   \* unordered pair: symmetry
                                ELSE <<"kdhg", sk, pk>>       \* DH with an adversary-made point

\* ---- OPAQUE key schedule (RFC 9807) -----------------------------------------
Rwd(pw, e, ksf) == LET o == Finalize(pw, e) IN Extract(Cat(<<o, Ksf(ksf, o)>>))
MaskKey(rwd)    == Expand(rwd, Lit("MaskingKey"), "Nh")
AuthKey(rwd, n) == Expand(rwd, Cat(<<n, Lit("AuthKey")>>), "Nh")
ExportKey(rwd, n) == Expand(rwd, Cat(<<n, Lit("ExportKey")>>), "Nh")
CSk(rwd, n)     == KDk(Expand(rwd, Cat(<<n, Lit("PrivateKey")>>), "Nseed"))
EnvMac(rwd, n, spk, ids, idu) ==
    Hmac(AuthKey(rwd, n), Cat(<<n, spk, LP(2, ids), LP(2, idu)>>))
Pad(mk, mn)     == Expand(mk, Cat(<<mn, Lit("CredentialResponsePad")>>), "Npad")
Masked(mk, mn, spk, envn, envm) == Xor(Pad(mk, mn), Cat(<<spk, envn, envm>>))

ExpLabel(secret, label, ctx) ==
    Expand(secret, Cat(<<I2("Nh", 2), LP(1, Cat(<<Lit("OPAQUE-"), Lit(label)>>)), LP(1, ctx)>>), "Nh")

\* request = blinded || cnonce || cepk ; response-without-KE = eval || mn || masked
Preamble(ctx, idu, req, ids, eval, mn, masked, snonce, sepk) ==
    <<Lit("OPAQUEv1-"), LP(2, ctx), LP(2, idu), req.blinded, req.cnonce, req.cepk,
      LP(2, ids), eval, mn, masked, snonce, sepk>>

Keys(d1, d2, d3, th) ==
    LET ikm == Extract(Cat(<<d1, d2, d3>>))
        hs  == ExpLabel(ikm, "HandshakeSecret", th)
    IN  [sk  |-> ExpLabel(ikm, "SessionKey", th),
         km2 |-> ExpLabel(hs, "ServerMAC", Cat(<<>>)),
         km3 |-> ExpLabel(hs, "ClientMAC", Cat(<<>>))]

\* ---- dependency analysis (C17) ----------------------------------------------
\* The random choices <<tape, role>> a term depends on: structural recursion over every
\* constructor.
RECURSIVE Tapes(_)
Tapes(t) ==
    CASE t[1] = "rnd" -> {<<t[2], t[3]>>}
      [] t[1] \in {"atom", "lit", "zero", "i2", "gbg", "none"} -> {}
      [] t[1] = "cat" -> UNION {Tapes(t[2][i]) : i \in 1..Len(t[2])}
      [] t[1] = "lp" -> Tapes(t[3])
      [] t[1] \in {"hash", "extract", "h2c", "okey", "kdk", "kpk", "inv"} -> Tapes(t[2])
      [] t[1] \in {"hmac", "xor", "kdhg"} -> Tapes(t[2]) \cup Tapes(t[3])
      [] t[1] = "expand" -> Tapes(t[2]) \cup Tapes(t[3])
      [] t[1] = "ksf" -> Tapes(t[3])
      [] t[1] = "oel" -> Tapes(t[2]) \cup UNION {Tapes(k) : k \in BagToSet(t[3])}
      [] t[1] = "kdh" -> UNION {Tapes(x) : x \in t[2]}

\* ---- emission of full terms for the byte-exact evaluator (C09) ---------------
\* A JSON-friendly copy of a term: bags and sets become sequences.
RECURSIVE Ast(_)
Ast(t) ==
    CASE t[1] \in {"atom", "lit", "zero", "i2", "gbg", "none", "rnd"} -> t
      [] t[1] = "cat" -> <<"cat", [i \in 1..Len(t[2]) |-> Ast(t[2][i])]>>
      [] t[1] = "lp" -> <<"lp", t[2], Ast(t[3])>>
      [] t[1] \in {"hash", "extract", "h2c", "okey", "kdk", "kpk", "inv"} -> <<t[1], Ast(t[2])>>
      [] t[1] \in {"hmac", "xor", "kdhg"} -> <<t[1], Ast(t[2]), Ast(t[3])>>
      [] t[1] = "expand" -> <<"expand", Ast(t[2]), Ast(t[3]), t[4]>>
      [] t[1] = "ksf" -> <<"ksf", t[2], Ast(t[3])>>
      [] t[1] = "oel" -> <<"oel", Ast(t[2]), SetToSeq({Ast(k) : k \in BagToSet(t[3])})>>
      [] t[1] = "kdh" -> <<"kdh", SetToSeq({Ast(x) : x \in t[2]})>>

IdEff(opt, pk) == IF opt = NoneV THEN pk ELSE opt      \* absent identity = static public key
CtxEff(opt)    == IF opt = NoneV THEN Atom(0) ELSE opt \* absent context = empty string
\* KSF parameter: 0 = absent, 1 = the default instance passed explicitly, k >= 2 = alternative
\* instance k-1.  KsfNorm gives the instance that is evaluated (0 = default).
KsfNorm(k)     == IF k <= 1 THEN 0 ELSE k - 1
=============================================================================

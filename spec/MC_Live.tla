------------------------------ MODULE MC_Live ------------------------------
(* Liveness (extra): one user, one client session, one server session, honest deliveries only; under weak fairness the login completes on both sides. *)
EXTENDS MCBase

A(n) == Atom(n)
Plan(pw, cid, s, idu, ids, ksf) == [pw1 |-> A(pw), pw2 |-> A(pw), cid |-> A(cid), s |-> s,
                                    idu |-> idu, ids |-> ids, ksf |-> ksf]
One == {NoneV}
Live_SetupPlan == << [op |-> "new", tape |-> 1] >>
Live_RegPlan == << Plan(1, 11, 1, NoneV, NoneV, 0) >>
Live_CliPw   == [c \in CliIds |-> <<A(1), A(1)>>]
Live_SrvSetups == {1}
Live_SrvRecs == {1}
Live_SrvCids == {A(11)}
Live_RegIdus == One
Live_RegIdss == One
Live_RegKsfs == {0}
Live_SrvCtxs == One
Live_SrvIdus == One
Live_SrvIdss == One
Live_CliCtxs == One
Live_CliIdus == One
Live_CliIdss == One
Live_CliKsfs == {0}
Live_MutPlan == << >>

=============================================================================

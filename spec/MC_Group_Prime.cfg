SPECIFICATION Spec
CONSTANTS
  KeyClasses <- PrimeClasses
  Codecs <- AllCodecs
INVARIANT Symmetric
INVARIANT PublicConsistent
INVARIANT Emit
CHECK_DEADLOCK FALSE

------------------------------ MODULE MCBase ------------------------------
(***************************************************************************)
(* Bounded instances of the Opaque specification for TLC.                  *)
(*                                                                         *)
(* A run has a scripted PREFIX (setups and registrations, executed in a    *)
(* fixed order so that TLC does not spend its budget on interleavings of   *)
(* the population set-up) followed by a FREE phase in which the network    *)
(* adversary schedules login steps and chooses every message any step      *)
(* consumes, from everything sent so far plus tampered / forged values.    *)
(* Each configuration module (MC_*.tla) supplies the plan constants.       *)
(***************************************************************************)
EXTENDS OpaqueProps, Json

CONSTANTS
    SetupPlan,  \* sequence of [op |-> "new", tape] | [op |-> "parts", seed, key, fake : setup ids, mode]
                \*              | [op |-> "withkey", tape, key : setup id, mode]
    RegPlan,    \* sequence of [pw1, pw2, cid, s, idu, ids, ksf]  (registration i -> file i); an idu / ids /
                \* ksf entry may be the token "any": then every value of RegIdus / RegIdss / RegKsfs is explored
    RegIdus, RegIdss, RegKsfs,
    CliPw,      \* CliIds -> <<pw at start, pw at finish>>
    SrvSetups, SrvRecs, SrvCids, SrvCtxs, SrvIdus, SrvIdss,   \* server-start choices (SrvRecs: file ids, 0 = none)
    CliCtxs, CliIdus, CliIdss, CliKsfs,                        \* client-finish choices
    MutPlan,    \* sequence of <<field, class>>: adversary-made values, manufactured at the end of the
                \* prefix; a response may be delivered with one field replaced by such a value, a
                \* "fin" value may be delivered as finalization
    Splice,     \* BOOLEAN: a response field may come from another server session's response
    Reloads,    \* BOOLEAN: Reload actions enabled in the free phase
    ExtFail,    \* BOOLEAN: a server start on an external-key setup may hit a failing key
    MaxFree     \* bound on the number of free-phase steps (state constraint)

VARIABLES phase, nfree

mcvars == <<vars, phase, nfree>>

NS == Len(SetupPlan)
NR == Len(RegPlan)
NM == Len(MutPlan)
PrefixLen == NS + 5 * NR + NM

\* identity choice tokens: <<"tok","cpk">> = explicit spelling of the user's public key,
\* <<"tok","spk">> = explicit spelling of the server's public key
Tok(x) == <<"tok", x>>
\* <<"tok","spk3">> = the static public key of ANOTHER setup (setup 3) used as a server NAME: a byte string
\* that happens to be a valid public key of the group, but is an identity like any other
ResolveId(x, cpk, spk) == IF x = Tok("cpk") THEN cpk ELSE IF x = Tok("spk") THEN spk
                          ELSE IF x = Tok("spk3") THEN SPk(3) ELSE x

MCInit == Init /\ phase = 1 /\ nfree = 0

XFail(P) == "xfail" \in DOMAIN P /\ P.xfail
SetupStep(k) ==
    LET P == SetupPlan[k] IN
    CASE P.op = "new"     -> SetupNew(k, P.tape)
      \* xfail: the external key fails while the setup is being built (nothing is created)
      [] P.op = "withkey" -> SetupWithKey(k, P.tape, setups[P.key].ssk, P.mode, XFail(P))
      [] P.op = "parts"   -> SetupFromParts(k, setups[P.seed].seed, setups[P.key].ssk,
                                            setups[P.fake].fsk, P.mode, XFail(P))

\* An entry of RegPlan may carry adv: the registration RESPONSE is altered on its way to the client
\* ("reflect": the client's own blinded element comes back; "evalgbg" / "evalbad": the evaluation is
\* replaced by an adversary-made valid / invalid element; "spkother": the static key of setup
\* P.other is substituted -- a registration man-in-the-middle).
AdvOf(P) == IF "adv" \in DOMAIN P THEN P.adv ELSE "none"
GbgOf(field, cls) == CHOOSE g \in garbage : g[2] = field /\ g[3] = cls
Early(pw) == IF TooLong(pw) THEN BOOLEAN ELSE {FALSE}
RegStep(i, sub) ==
    LET P == RegPlan[i] IN
    IF sub # 0 /\ regs[i].st = "refused" THEN UNCHANGED vars      \* refused at start: nothing follows
    ELSE
    CASE sub = 0 -> \E early \in Early(P.pw1) : CRegStart(i, P.pw1, 100 + 2 * i, early)
      \* persistence points inside a registration: the client's registration state, the server setup
      [] sub = 1 -> \/ UNCHANGED vars
                    \/ /\ Reloads
                       /\ \E co \in {"native", "bincode", "json"} :
                            Reload("reg", i, co) \/ Reload("setup", P.s, co)
      [] sub = 2 -> SRegStart(P.s, regs[i].blinded, P.cid)
      [] sub = 3 -> LET r0 == SRegStartRes(P.s, regs[i].blinded, P.cid)
                        r == [eval |-> CASE AdvOf(P) = "reflect" -> regs[i].blinded
                                         [] AdvOf(P) = "evalgbg" -> GbgOf("eval", "valid")
                                         [] AdvOf(P) = "evalbad" -> GbgOf("eval", "invalid")
                                         [] OTHER -> r0.eval,
                              spk  |-> IF AdvOf(P) = "spkother" THEN SPk(P.other) ELSE r0.spk] IN
                    \E idu \in (IF P.idu = Tok("any") THEN RegIdus ELSE {P.idu}),
                       ids \in (IF P.ids = Tok("any") THEN RegIdss ELSE {P.ids}),
                       ksf \in (IF P.ksf = 99 THEN RegKsfs ELSE {P.ksf}) :
                    CRegFinish(i, P.pw2, r.eval, r.spk,
                               ResolveId(idu, NoneV, r.spk), ResolveId(ids, NoneV, r.spk),
                               ksf, FALSE, 101 + 2 * i)
      [] sub = 4 -> IF RegOk(i) THEN SRegFinish(i, RecOfReg(i))
                    ELSE UNCHANGED vars          \* the client refused: nothing to upload

Prefix ==
    /\ phase <= PrefixLen
    /\ IF phase <= NS THEN SetupStep(phase)
       ELSE IF phase <= NS + NM
            THEN Mut(MutPlan[phase - NS][1], MutPlan[phase - NS][2])
            ELSE RegStep(((phase - NS - NM - 1) \div 5) + 1, (phase - NS - NM - 1) % 5)
    /\ phase' = phase + 1
    /\ UNCHANGED nfree

-----------------------------------------------------------------------------
Started(c)  == cl[c].st = "started"
UsedSrv     == {j \in SrvIds : sv[j].st # "none"}
NextSrv     == IF UsedSrv = SrvIds THEN 0 ELSE CHOOSE j \in SrvIds \ UsedSrv :
                                                   \A k \in SrvIds \ UsedSrv : j <= k
RecChoice(u) == IF u = 0 THEN NoRec ELSE files[u].rec
Responses   == {sv[j].resp : j \in {k \in SrvIds : SrvOk(k)}}
TamperOne(m, g) ==
    LET f == g[2] IN
    CASE f = "eval"   -> [m EXCEPT !.eval = g]
      [] f = "mn"     -> [m EXCEPT !.mn = g]
      [] f = "masked" -> [m EXCEPT !.masked = g]
      [] f = "snonce" -> [m EXCEPT !.snonce = g]
      [] f = "sepk"   -> [m EXCEPT !.sepk = g]
      [] f = "mac"    -> [m EXCEPT !.mac = g]
SpliceOne(m, m2, f) ==
    CASE f = "eval"   -> [m EXCEPT !.eval = m2.eval]
      [] f = "mn"     -> [m EXCEPT !.mn = m2.mn]
      [] f = "masked" -> [m EXCEPT !.masked = m2.masked]
      [] f = "snonce" -> [m EXCEPT !.snonce = m2.snonce]
      [] f = "sepk"   -> [m EXCEPT !.sepk = m2.sepk]
      [] f = "mac"    -> [m EXCEPT !.mac = m2.mac]
RespFields == {"eval", "mn", "masked", "snonce", "sepk", "mac"}
Deliverable ==
    Responses
    \cup {TamperOne(m, g) : m \in Responses, g \in {x \in garbage : x[2] \in RespFields}}
    \cup (IF Splice THEN {SpliceOne(m, m2, f) : m \in Responses, m2 \in Responses, f \in RespFields}
          ELSE {})
Fins == {cl[c].fin : c \in {k \in CliIds : CliOk(k)}}
        \cup {x \in garbage : x[2] = "fin"}

\* the user's registered public key / the server key, for explicit spellings of the defaults
UserCpk == IF NR >= 1 /\ RegOk(1) THEN regs[1].cpk ELSE NoneV

FreeCLogStart == \E c \in CliIds, early \in BOOLEAN :
                     (early => TooLong(CliPw[c][1])) /\ CLogStart(c, CliPw[c][1], 200 + c, early)
HasReq(k) == cl[k].st \notin {"none", "refused"}

FreeSLogStart ==
    /\ NextSrv # 0
    /\ \E s \in SrvSetups, u \in SrvRecs, c \in {k \in CliIds : HasReq(k)},
          cid \in SrvCids, ctx \in SrvCtxs, idu \in SrvIdus, ids \in SrvIdss,
          xf \in (IF ExtFail THEN BOOLEAN ELSE {FALSE}) :
         /\ setups[s].st = "live"
         /\ xf => setups[s].mode = "ext"
         /\ u # 0 => files[u].st = "stored"
         /\ SLogStart(NextSrv, s, RecChoice(u), cl[c].req, cid, ctx,
                      ResolveId(idu, RecChoice(u).cpk, SPk(s)), ResolveId(ids, RecChoice(u).cpk, SPk(s)),
                      300 + NextSrv, xf)

FreeCLogFinish ==
    \E c \in {k \in CliIds : Started(k)}, m \in Deliverable,
       ctx \in CliCtxs, idu \in CliIdus, ids \in CliIdss, ksf \in CliKsfs :
         CLogFinish(c, CliPw[c][2], m, ctx, ResolveId(idu, UserCpk, SPk(1)),
                    ResolveId(ids, UserCpk, SPk(1)), ksf, FALSE)
    \* (explicit spellings at the client: its registered public key, and the key of setup 1)

FreeSLogFinish ==
    \E j \in {k \in SrvIds : sv[k].st = "started"}, fin \in Fins : SLogFinish(j, fin)

FreeReload ==
    /\ Reloads
    /\ \E kind \in {"setup", "file", "cli", "srv"}, id \in AllIds, co \in {"native", "bincode", "json"} :
           Reload(kind, id, co)

Free ==
    /\ phase > PrefixLen
    /\ (FreeCLogStart \/ FreeSLogStart \/ FreeCLogFinish \/ FreeSLogFinish \/ FreeReload)
    /\ nfree' = nfree + 1
    /\ UNCHANGED phase

MCNext == Prefix \/ Free
MCSpec == MCInit /\ [][MCNext]_mcvars
\* with fairness, for the liveness property of MC_Live
MCSpecFair == MCSpec /\ WF_mcvars(MCNext)
\* extra (beyond the 19 properties): an honest session whose messages keep being delivered completes
HonestCompletes == <>(\E j \in SrvIds : sv[j].st = "done" /\ sv[j].fres = "Ok")

Bound == nfree <= MaxFree

\* behaviour emission for the replay direction (spec -> code): one JSON line per behaviour
EmitAt(cond) == (cond /\ TrackObs) => PrintT(<<"BEHAVIOUR", ToJson(hist)>>)
EmitAtBound == EmitAt(nfree = MaxFree)
\* ... or as soon as a step was refused (behaviours that end in a refusal never reach the bound)
LastRefused == Len(hist) > 0 /\ LET h == hist[Len(hist)] IN "res" \in DOMAIN h /\ h.res # "Ok"
EmitAtBoundOrRefusal == EmitAt(nfree = MaxFree \/ (phase > PrefixLen /\ LastRefused))
\* the same with the full term of every value id (for the byte-exact evaluator, C09)
EmitTermsAtBound ==
    (nfree = MaxFree /\ TrackObs) =>
        PrintT(<<"BEHAVIOUR", ToJson([events |-> hist, terms |-> [i \in 1..Len(tbl) |-> Ast(tbl[i])]])>>)
=============================================================================

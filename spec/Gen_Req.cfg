SPECIFICATION ReqSpec
CONSTANTS
  SetupIds = {1}
  RegIds = {1}
  FileIds = {1}
  CliIds = {1,2}
  SrvIds = {1,2}
  TrackObs = TRUE
  TrackDeps = FALSE
  Dev = "none"
  SetupPlan <- Req_SetupPlan
  RegPlan <- Req_RegPlan
  RegIdus <- Req_RegIdus
  RegIdss <- Req_RegIdss
  RegKsfs <- Req_RegKsfs
  CliPw <- Req_CliPw
  SrvSetups <- Req_SrvSetups
  SrvRecs <- Req_SrvRecs
  SrvCids <- Req_SrvCids
  SrvCtxs <- Req_SrvCtxs
  SrvIdus <- Req_SrvIdus
  SrvIdss <- Req_SrvIdss
  CliCtxs <- Req_CliCtxs
  CliIdus <- Req_CliIdus
  CliIdss <- Req_CliIdss
  CliKsfs <- Req_CliKsfs
  MutPlan <- Req_MutPlan
  Splice = FALSE
  Reloads = FALSE
  ExtFail = FALSE
  MaxFree = 6
INVARIANT Agreement
INVARIANT ClientAcceptsOnlyMatched
INVARIANT ServerAcceptsOnlyMatched
INVARIANT ServerCompletes
INVARIANT SessionKeysDistinct
INVARIANT FakeNeverCompletes
INVARIANT EvalIndependentOfRecord
INVARIANT FakeFieldsFresh
INVARIANT ReportedKeyIsSetupKey
INVARIANT Oblivious
INVARIANT ExportKeySeparated
INVARIANT NoSecretOnWire
INVARIANT AcceptedOnlyOwnRequest
INVARIANT EmitAtBound
CONSTRAINT Bound
CHECK_DEADLOCK FALSE

SPECIFICATION MCSpec
CONSTANTS
  SetupIds = {1,2,3}
  RegIds = {1,2,3,4,5,6}
  FileIds = {1,2,3,4,5,6}
  CliIds = {1}
  SrvIds = {1,2,3}
  TrackObs = FALSE
  TrackDeps = FALSE
  Dev = "none"
  SetupPlan <- Obliv_SetupPlan
  RegPlan <- Obliv_RegPlan
  RegIdus <- Obliv_RegIdus
  RegIdss <- Obliv_RegIdss
  RegKsfs <- Obliv_RegKsfs
  CliPw <- Obliv_CliPw
  SrvSetups <- Obliv_SrvSetups
  SrvRecs <- Obliv_SrvRecs
  SrvCids <- Obliv_SrvCids
  SrvCtxs <- Obliv_SrvCtxs
  SrvIdus <- Obliv_SrvIdus
  SrvIdss <- Obliv_SrvIdss
  CliCtxs <- Obliv_CliCtxs
  CliIdus <- Obliv_CliIdus
  CliIdss <- Obliv_CliIdss
  CliKsfs <- Obliv_CliKsfs
  MutPlan <- Obliv_MutPlan
  Splice = FALSE
  Reloads = FALSE
  ExtFail = FALSE
  MaxFree = 100
INVARIANT Agreement
INVARIANT ClientAcceptsOnlyMatched
INVARIANT ServerAcceptsOnlyMatched
INVARIANT ServerCompletes
INVARIANT SessionKeysDistinct
INVARIANT FakeNeverCompletes
INVARIANT EvalIndependentOfRecord
INVARIANT FakeFieldsFresh
INVARIANT ReportedKeyIsSetupKey
INVARIANT Oblivious
INVARIANT ExportKeySeparated
INVARIANT NoSecretOnWire
CHECK_DEADLOCK FALSE

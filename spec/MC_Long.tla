------------------------------ MODULE MC_Long ------------------------------
(* Parameter lengths beyond the encodable limit (C12): atoms >= 90 are longer than 65535 bytes; each such parameter makes the step that encodes it fail, and never acts as a shorter input. *)
EXTENDS MCBase

A(n) == Atom(n)
Plan(pw, cid, s, idu, ids, ksf) == [pw1 |-> A(pw), pw2 |-> A(pw), cid |-> A(cid), s |-> s,
                                    idu |-> idu, ids |-> ids, ksf |-> ksf]
One == {NoneV}
Long_SetupPlan == << [op |-> "new", tape |-> 1] >>
\* registrations 3 and 4: an over-long password at both steps (refused at start or at finish), and at finish only
Long_RegPlan == << Plan(1, 11, 1, NoneV, NoneV, 0), Plan(1, 90, 1, A(31), A(32), 0),
                   Plan(93, 12, 1, NoneV, NoneV, 0),
                   [pw1 |-> A(1), pw2 |-> A(93), cid |-> A(12), s |-> 1, idu |-> NoneV, ids |-> NoneV, ksf |-> 0] >>
Long_CliPw   == [c \in CliIds |-> CASE c = 2 -> <<A(1), A(93)>> [] c = 3 -> <<A(93), A(93)>> [] OTHER -> <<A(1), A(1)>>]
Long_SrvSetups == {1}
Long_SrvRecs == {0, 1, 2}
Long_SrvCids == {A(11), A(90)}
Long_RegIdus == One
Long_RegIdss == One
Long_RegKsfs == {0}
Long_SrvCtxs == {NoneV, A(91)}
Long_SrvIdus == {NoneV, A(31), A(92)}
Long_SrvIdss == {NoneV, A(92)}
Long_CliCtxs == {NoneV, A(91)}
Long_CliIdus == {NoneV, A(31), A(92)}
Long_CliIdss == {NoneV, A(92)}
Long_CliKsfs == {0}
Long_MutPlan == << >>

=============================================================================

SPECIFICATION TraceSpec
CONSTANTS
  SetupIds = {1,2,3,4}
  RegIds = {1,2,3,4,5,6,7,8,9,10,11,12,13,14,15,16}
  FileIds = {1,2,3,4,5,6,7,8,9,10,11,12,13,14,15,16}
  CliIds = {1,2,3,4,5,6,7,8,9,10,11,12,13,14,15,16,17,18,19,20,21,22,23,24,25,26,27,28,29,30,31,32}
  SrvIds = {1,2,3,4,5,6,7,8,9,10,11,12,13,14,15,16,17,18,19,20,21,22,23,24,25,26,27,28,29,30,31,32,33,34,35,36,37,38,39,40,41,42,43,44,45,46,47,48,49,50,51,52,53,54,55,56,57,58,59,60,61,62,63,64}
  TrackObs = TRUE
  TrackDeps = FALSE
  Dev = "none"
INVARIANT NoMismatch
INVARIANT TraceInvariants
CONSTRAINT Progress
VIEW TraceView
POSTCONDITION Consumed
CHECK_DEADLOCK FALSE

------------------------------ MODULE MC_Bytes ------------------------------
(* Byte-exact conformance (C09): honest executions (real and absent record, absent and explicit identities and contexts, explicit KSF instance, re-registration) emitted WITH THE FULL TERM of every output; the harness evaluates the terms with reference primitives and compares with the bytes the implementation produced. *)
EXTENDS MCBase

A(n) == Atom(n)
Plan(pw, cid, s, idu, ids, ksf) == [pw1 |-> A(pw), pw2 |-> A(pw), cid |-> A(cid), s |-> s,
                                    idu |-> idu, ids |-> ids, ksf |-> ksf]
One == {NoneV}
Bytes_SetupPlan == << [op |-> "new", tape |-> 1] >>
Bytes_RegPlan == << Plan(1, 11, 1, NoneV, NoneV, 0), Plan(2, 12, 1, A(31), A(32), 2), Plan(1, 11, 1, A(0), NoneV, 1) >>
Bytes_CliPw   == [c \in CliIds |-> IF c = 2 THEN <<A(2), A(2)>> ELSE <<A(1), A(1)>>]
Bytes_SrvSetups == {1}
Bytes_SrvRecs == {0, 1, 2, 3}
Bytes_SrvCids == {A(11), A(12)}
Bytes_RegIdus == One
Bytes_RegIdss == One
Bytes_RegKsfs == {0}
Bytes_SrvCtxs == {NoneV, A(21)}
Bytes_SrvIdus == {NoneV, A(0), A(31)}
Bytes_SrvIdss == {NoneV, A(32)}
Bytes_CliCtxs == {NoneV, A(21)}
Bytes_CliIdus == {NoneV, A(0), A(31)}
Bytes_CliIdss == {NoneV, A(32)}
Bytes_CliKsfs == {0, 1, 2}
Bytes_MutPlan == << >>

=============================================================================

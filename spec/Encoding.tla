------------------------------ MODULE Encoding ------------------------------
(***************************************************************************)
(* The binding encodings of OPAQUE on CONCRETE byte strings (C05, second   *)
(* sentence; C12 length limits).  Terms.tla treats a length-prefixed       *)
(* concatenation as injective; that is itself a claim, discharged here:    *)
(*                                                                         *)
(*   transcript prefix:  "OPAQUEv1-" || LP2(context) || LP2(id_u) || ...   *)
(*                       ... || LP2(id_s) || ...        (tripledh.rs:207)  *)
(*   envelope AAD:        server_pk || LP2(id_s) || LP2(id_u)              *)
(*                                                      (envelope.rs:329)  *)
(*                                                                         *)
(* Small strings over {0x00, 0x01, 0x61} up to length MaxLen: TLC checks   *)
(* that equal encodings imply equal triples, and emits every pair of       *)
(* DIFFERENT triples whose raw concatenation (without prefixes) is equal   *)
(* -- the boundary-shift family -- for the harness to run against the real *)
(* code: such a pair must never log in.  Long strings are modelled by      *)
(* their length only: I2OSP(n, 2) exists iff n <= 65535, and two lengths   *)
(* that differ by a multiple of 256 or 65536 still encode differently.     *)
(***************************************************************************)
EXTENDS Naturals, Sequences, FiniteSets, TLC, Json

CONSTANTS Alphabet, MaxLen, Lengths

RECURSIVE Strings(_)
Strings(n) == IF n = 0 THEN {<<>>}
              ELSE LET S == Strings(n - 1) IN S \cup {Append(s, b) : s \in {x \in S : Len(x) = n - 1}, b \in Alphabet}

I2OSP2(n) == <<n \div 256, n % 256>>
LP2(s)    == I2OSP2(Len(s)) \o s

\* the two binding layouts, restricted to their caller-controlled parts
TranscriptEnc(t) == LP2(t.ctx) \o LP2(t.idu) \o <<255>> \o LP2(t.ids)   \* 255: the fixed-length request in between
AadEnc(t)        == LP2(t.ids) \o LP2(t.idu)
Raw(t)           == t.ctx \o t.idu \o t.ids

VARIABLES a, b     \* two parameter triples [ctx, idu, ids]
Triples == [ctx : Strings(MaxLen), idu : Strings(MaxLen), ids : Strings(MaxLen)]
Start == [ctx |-> <<>>, idu |-> <<>>, ids |-> <<>>]
Init == a = Start /\ b = Start
\* two-level enumeration: choose a, then b
Next == \/ /\ a = Start /\ b = Start /\ a' \in Triples /\ b' = b
        \/ /\ b = Start /\ b' \in Triples /\ a' = a
Spec == Init /\ [][Next]_<<a, b>>

TranscriptInjective == TranscriptEnc(a) = TranscriptEnc(b) => a = b
AadInjective        == AadEnc(a) = AadEnc(b) => (a.ids = b.ids /\ a.idu = b.idu)
\* the boundary-shift family: different triples, same bytes once the prefixes are ignored
EmitShift == (a # b /\ Raw(a) = Raw(b)) =>
                PrintT(<<"PAIR", ToJson([kind |-> "shift", A |-> a, B |-> b])>>)

\* long strings by length: which lengths can be encoded at all, and no two encodable
\* lengths share a prefix
Encodable(n) == n <= 65535
LengthsInjective == \A n, m \in Lengths : (Encodable(n) /\ Encodable(m) /\ I2OSP2(n) = I2OSP2(m)) => n = m
EmitLengthsOnce == (a = Start /\ b = Start) =>
    PrintT(<<"PAIR", ToJson([n \in Lengths |-> Encodable(n)])>>)
=============================================================================

------------------------------- MODULE Group -------------------------------
(***************************************************************************)
(* The key-exchange group as users see it: an API of key objects           *)
(* (KeGroup::{derive_auth_keypair, random_sk, public_key, diffie_hellman,  *)
(* serialize_*, deserialize_*}, KeyPair::{from_private_key_slice, public,  *)
(* private}, PrivateKey / PublicKey serialize / deserialize / serde),      *)
(* modelled with the term algebra of Terms.tla (KDk, KPk, KDh) and bound   *)
(* to the code like the protocol: TLC enumerates the behaviours, the       *)
(* harness replays them on each of the five groups (equality pattern) and  *)
(* evaluates every term with the reference arithmetic of the curve crates  *)
(* (exact bytes; RFC 7748 clamping for Curve25519).                        *)
(*                                                                         *)
(* What TLA+ contributes here is the case enumeration (key classes x seed  *)
(* classes x operations x reloads) and the expected relations (symmetry is *)
(* the unordered pair inside KDh; 1 and order-1 obey their group equations)*)
(* -- not the curve arithmetic, for which the reference crates are the     *)
(* oracle (claimed at exploration level).                                  *)
(***************************************************************************)
EXTENDS Terms, Json

CONSTANTS KeyClasses,   \* how a private key comes into being
          Codecs

VARIABLES keys,   \* 1..2 -> private-key term (or NoneV)
          pc, tbl, hist

gvars == <<keys, pc, tbl, hist>>

One == <<"skc", "one">>          \* the scalar 1
M1  == <<"skc", "orderm1">>      \* the scalar order - 1
SkOf(cls, tape) ==
    CASE cls = "seed-rand"  -> KDk(Rnd(tape, "seed"))
      [] cls = "seed-zeros" -> KDk(Zero("Nsk"))
      [] cls = "seed-ones"  -> KDk(<<"ones", "Nsk">>)
      [] cls = "one"        -> One
      [] cls = "orderm1"    -> M1
      \* Curve25519: DeriveDiffieHellmanKeyPair is RFC 7748 clamping, so the clamped extremes ARE
      \* the keys derived from the all-zero and the all-ones seed
      [] cls = "clampmin"   -> KDk(Zero("Nsk"))
      [] cls = "clampmax"   -> KDk(<<"ones", "Nsk">>)
      [] cls = "random"     -> <<"krand", tape>>       \* KeGroup::random_sk(rng)
      \* a key IMPORTED from foreign bytes (KeyPair::from_private_key_slice / PrivateKey::deserialize): raw
      \* generator output, or generator output adjusted into the group's range.  Whether the bytes are
      \* accepted is the decoders' business (Wire.tla); IF they are, the key object obeys every law, its
      \* encoding is the imported string, and its public key is the group's function of that string.
      [] cls \in {"import-raw", "import-adj"} -> <<"kimp", tape>>

\* Diffie-Hellman with the equations of 1 and order-1
GDh(a, b) ==
    IF a = One THEN KPk(b)
    ELSE IF b = One THEN KPk(a)
    ELSE IF a = M1 /\ b = M1 THEN KPk(One)
    ELSE <<"kdh", {a, b}>>

RECURSIVE AddAll(_, _)
AddAll(tb, ts) == IF Len(ts) = 0 THEN tb
                  ELSE LET t == Head(ts) IN
                       AddAll(IF \E i \in 1..Len(tb) : tb[i] = t THEN tb ELSE Append(tb, t), Tail(ts))
IdIn(tb, t) == CHOOSE i \in 1..Len(tb) : tb[i] = t
Observe(ev, outs) ==
    LET tb == AddAll(tbl, outs) IN
    /\ tbl' = tb
    /\ hist' = Append(hist, ev @@ [out |-> [k \in 1..Len(outs) |-> IdIn(tb, outs[k])]])

Init == keys = <<NoneV, NoneV>> /\ pc = 1 /\ tbl = <<>> /\ hist = <<>>

Make(k) == \E cls \in KeyClasses :
    LET sk == SkOf(cls, 10 + k) IN
    /\ keys' = [keys EXCEPT ![k] = sk]
    /\ Observe([ev |-> "Make", k |-> k, cls |-> cls, tape |-> 10 + k], <<sk>>)
PublicOf(k) == UNCHANGED keys /\ Observe([ev |-> "PublicOf", k |-> k], <<KPk(keys[k])>>)
Dh(k, p)    == UNCHANGED keys /\ Observe([ev |-> "Dh", k |-> k, peer |-> p], <<GDh(keys[k], keys[p])>>)
\* save / reload of a private key, and of the public key derived from it: nothing changes
Reload(k)   == \E co \in Codecs :
    UNCHANGED keys /\ Observe([ev |-> "Reload", k |-> k, codec |-> co], <<keys[k], KPk(keys[k])>>)
\* KeyPair::from_private_key_slice: the pair's halves are the key and its public key
Pair(k)     == UNCHANGED keys /\ Observe([ev |-> "Pair", k |-> k], <<keys[k], KPk(keys[k])>>)

Script ==
    CASE pc = 1 -> Make(1)
      [] pc = 2 -> Make(2)
      [] pc = 3 -> PublicOf(1)
      [] pc = 4 -> PublicOf(2)
      [] pc = 5 -> Dh(1, 2)
      [] pc = 6 -> Dh(2, 1)
      [] pc = 7 -> Reload(1)
      [] pc = 8 -> Dh(1, 2)
      [] pc = 9 -> Pair(2)
      [] pc = 10 -> Dh(1, 1)
      [] pc = 11 -> Reload(2)
      [] pc = 12 -> Dh(2, 1)
Next == pc <= 12 /\ Script /\ pc' = pc + 1
Spec == Init /\ [][Next]_gvars

\* C19 on the model: both directions of a Diffie-Hellman agree (looked up in the history)
Symmetric ==
    \A i, j \in 1..Len(hist) :
        (hist[i].ev = "Dh" /\ hist[j].ev = "Dh" /\ hist[i].k = hist[j].peer /\ hist[i].peer = hist[j].k)
            => hist[i].out = hist[j].out
\* a key's public half is the same wherever it is read; reloads and pairs change nothing
PublicConsistent ==
    \A i, j \in 1..Len(hist) :
        (hist[i].ev \in {"Reload", "Pair"} /\ hist[j].ev = "PublicOf" /\ hist[i].k = hist[j].k)
            => hist[i].out[2] = hist[j].out[1]
Emit == pc = 13 => PrintT(<<"BEHAVIOUR", ToJson([events |-> hist, terms |-> [i \in 1..Len(tbl) |-> tbl[i]]])>>)
=============================================================================

---------------------------- MODULE OpaqueTrace ----------------------------
(***************************************************************************)
(* Trace validation (direction B: code -> specification).                  *)
(*                                                                         *)
(* The harness drives the REAL opaque-ke API (random schedules, adversarial *)
(* routing, reloads, faults) and logs one event per public call at its     *)
(* return, with every argument and every output as a value id.  This       *)
(* module replays the log through the actions of Opaque.tla: each event    *)
(* must be explained by the action of the same name with the logged        *)
(* arguments, and the action's own event (result class, output value ids   *)
(* by first occurrence) must equal the logged one.  All invariants of      *)
(* OpaqueProps.tla are evaluated on every state of the recorded execution. *)
(* All arguments are logged, so the search is linear in the trace length.  *)
(***************************************************************************)
EXTENDS OpaqueProps, Json, IOUtils

Evs == ndJsonDeserialize(IOEnv.TRACE)

VARIABLES l,      \* next event to consume
          bad     \* <<>> or <<position, expected event, logged event>>

tvars == <<vars, l, bad>>

TraceInit == Init /\ l = 1 /\ bad = <<>>

MsgRec(m)  == Rec(Dec(m[1]), Dec(m[2]), Dec(m[3]), Dec(m[4]))
MsgReq(m)  == Req(Dec(m[1]), Dec(m[2]), Dec(m[3]))
MsgResp(m) == Resp(Dec(m[1]), Dec(m[2]), Dec(m[3]), Dec(m[4]), Dec(m[5]), Dec(m[6]))

Act(e) ==
    CASE e.ev = "SetupNew"       -> SetupNew(e.id, e.tape)
      [] e.ev = "SetupWithKey"   -> SetupWithKey(e.id, e.tape, Dec(e.key), e.mode, e.extfail)
      [] e.ev = "SetupFromParts" -> SetupFromParts(e.id, Dec(e.parts[1]), Dec(e.parts[2]),
                                                   Dec(e.parts[3]), e.mode, e.extfail)
      [] e.ev = "CRegStart"      -> CRegStart(e.id, Dec(e.pw), e.tape, e.res # "Ok")
      [] e.ev = "SRegStart"      -> SRegStart(e.id, Dec(e.req), Dec(e.cid))
      [] e.ev = "CRegFinish"     -> CRegFinish(e.id, Dec(e.pw), Dec(e.msg[1]), Dec(e.msg[2]),
                                               Dec(e.idu), Dec(e.ids), e.ksf, e.ksffail, e.tape)
      [] e.ev = "SRegFinish"     -> SRegFinish(e.id, MsgRec(e.msg))
      [] e.ev = "CLogStart"      -> CLogStart(e.id, Dec(e.pw), e.tape, e.res # "Ok")
      [] e.ev = "SLogStart"      -> SLogStart(e.id, e.s,
                                              IF Len(e.rec) = 0 THEN NoRec ELSE MsgRec(e.rec),
                                              MsgReq(e.msg), Dec(e.cid), Dec(e.ctx), Dec(e.idu),
                                              Dec(e.ids), e.tape, e.extfail)
      [] e.ev = "CLogFinish"     -> CLogFinish(e.id, Dec(e.pw), MsgResp(e.msg), Dec(e.ctx),
                                               Dec(e.idu), Dec(e.ids), e.ksf, e.ksffail)
      [] e.ev = "SLogFinish"     -> SLogFinish(e.id, Dec(e.msg[1]))
      [] e.ev = "Reload"         -> Reload(e.kind, e.id, e.codec)
      [] e.ev = "Mut"            -> Mut(e.field, e.cls)

\* Does the logged result satisfy the specification's?  The error CLASS is compared
\* only where a property fixes it (DESIGN.md 4.7).
HasRes(h) == "res" \in DOMAIN h
ResOk(h, e) ==
    IF ~HasRes(h) THEN e.res = "Ok"
    ELSE CASE h.res = "Ok"           -> e.res = "Ok"
           [] h.res = "InvalidLogin" -> IF "why" \in DOMAIN h /\ h.why = "mac"
                                        THEN e.res \notin {"Ok", "Panic"}
                                        ELSE e.res = "InvalidLogin"
           [] h.res = "Custom"       -> e.res = "Custom"
           [] OTHER                  -> e.res \notin {"Ok", "Panic"}
Explains(h, e) == ResOk(h, e) /\ (e.res = "Ok" => h.out = e.out)

Step ==
    /\ l <= Len(Evs)
    /\ bad = <<>>
    /\ LET e == Evs[l] IN
       IF e.ev = "Reset"
       THEN /\ setups' = [s \in SetupIds |-> NoSetup]
            /\ regs'   = [i \in RegIds   |-> NoReg]
            /\ files'  = [u \in FileIds  |-> NoFile]
            /\ cl'     = [c \in CliIds   |-> NoCli]
            /\ sv'     = [j \in SrvIds   |-> NoSrv]
            /\ garbage' = {}
            /\ tbl' = <<>> /\ hist' = <<>>
            /\ bad' = <<>>
       ELSE /\ Act(e)
            /\ LET h == hist'[Len(hist')] IN
               bad' = IF Explains(h, e) THEN <<>> ELSE <<l, h, e>>
    /\ l' = l + 1

TraceSpec == TraceInit /\ [][Step]_tvars

\* every argument is logged, so the position determines the state: fingerprint only that
TraceView == <<l, bad = <<>> >>

TraceInvariants == AllInvariants

\* recorded executions that deliberately reuse tapes (C17) cannot satisfy the freshness
\* invariants, which are stated for executions where every call has its own tape
TraceInvariantsSharedTapes ==
    /\ Agreement /\ ClientAcceptsOnlyMatched /\ ServerAcceptsOnlyMatched /\ ServerCompletes
    /\ FakeNeverCompletes /\ EvalIndependentOfRecord /\ ReportedKeyIsSetupKey /\ NoSecretOnWire

\* reported through TLC's output; the orchestrator reads these lines
NoMismatch == bad = <<>> \/ PrintT(<<"TRACE-MISMATCH", bad>>) = FALSE
Progress   == TLCSet(42, l - 1)
Consumed   == PrintT(<<"TRACE-CONSUMED", TLCGet(42), Len(Evs)>>)
=============================================================================

------------------------------ MODULE MC_Group ------------------------------
EXTENDS Group
\* prime-order groups (ristretto255, P-256, P-384, P-521) and Curve25519 (clamped scalars)
PrimeClasses == {"seed-rand", "seed-zeros", "seed-ones", "one", "orderm1", "random", "import-raw", "import-adj"}
XClasses     == {"seed-rand", "seed-zeros", "seed-ones", "clampmin", "clampmax", "random", "import-raw", "import-adj"}
AllCodecs    == {"native", "bincode", "json"}
=============================================================================

SPECIFICATION MCSpecFair
PROPERTY HonestCompletes
CONSTANTS
  SetupIds = {1}
  RegIds = {1}
  FileIds = {1}
  CliIds = {1}
  SrvIds = {1}
  TrackObs = FALSE
  TrackDeps = FALSE
  Dev = "none"
  SetupPlan <- Live_SetupPlan
  RegPlan <- Live_RegPlan
  RegIdus <- Live_RegIdus
  RegIdss <- Live_RegIdss
  RegKsfs <- Live_RegKsfs
  CliPw <- Live_CliPw
  SrvSetups <- Live_SrvSetups
  SrvRecs <- Live_SrvRecs
  SrvCids <- Live_SrvCids
  SrvCtxs <- Live_SrvCtxs
  SrvIdus <- Live_SrvIdus
  SrvIdss <- Live_SrvIdss
  CliCtxs <- Live_CliCtxs
  CliIdus <- Live_CliIdus
  CliIdss <- Live_CliIdss
  CliKsfs <- Live_CliKsfs
  MutPlan <- Live_MutPlan
  Splice = FALSE
  Reloads = FALSE
  ExtFail = FALSE
  MaxFree = 100
INVARIANT Agreement
INVARIANT ClientAcceptsOnlyMatched
INVARIANT ServerAcceptsOnlyMatched
INVARIANT ServerCompletes
INVARIANT SessionKeysDistinct
INVARIANT FakeNeverCompletes
INVARIANT EvalIndependentOfRecord
INVARIANT FakeFieldsFresh
INVARIANT ReportedKeyIsSetupKey
INVARIANT Oblivious
INVARIANT ExportKeySeparated
INVARIANT NoSecretOnWire
CHECK_DEADLOCK FALSE

#!/usr/bin/env python3
"""Regenerate MANIFEST.json from the table below (kept next to the checks it describes)."""
import json
import os

ROOT = os.path.dirname(os.path.dirname(os.path.abspath(__file__)))
TB = ("TLC/SANY; symbolic (Dolev-Yao) abstraction of the cryptography; the Rust harness; reference primitives "
      "(sha2, hmac, curve25519-dalek, p256/p384/p521, voprf hash-to-curve); exhaustive within the constants of the "
      "TLC configuration, concrete bytes by pools / boundary values / seeded sampling")
MC = "model_checking"
CHECKS = {
    "C01": (MC, "TLC model checking of spec/Opaque.tla (Agreement on MC_Bind, MC_Route, MC_Ksf) + replay of TLC-generated behaviours into the real API (independent tapes, and correlated generators: every call reading the same tape) + TLC trace validation of recorded executions", "5 C01"),
    "C02": (MC, "TLC model checking (MC_Route wrong-password sessions; MC_Pw: password at start x password at finish) + replay with near-miss password families (bit flips, prefixes, case, NUL, whitespace, 65535 bytes, digests of the registered password) + trace validation", "5 C02"),
    "C03": (MC, "TLC model checking (MC_Route) + replay with exhaustive bit/byte substitution of finalizations on every pending state", "5 C03"),
    "C04": (MC, "TLC model checking (MC_Tamper: altered / spliced response fields; MC_Req: responses made for mixed or adversary-made requests) + replay with offset x value sweeps of every response field", "5 C04"),
    "C05": (MC, "TLC model checking (MC_Bind: all parameter triples) + replay of all baselines and single-dimension deviations", "5 C05"),
    "C06": (MC, "TLC model checking (MC_Bind with same-seed/other-key setups) + replay", "5 C06"),
    "C07": (MC, "TLC model checking (MC_Route: all routings, all interleavings; MC_RegAdv; MC_File: mixed / tampered password files) + replay (per-call tapes and one shared generator) + TLC trace validation of random adversarial histories", "5 C07"),
    "C08": (MC, "TLC model checking (absent-record sessions in MC_Route / MC_Tamper) + replay + trace validation", "5 C08"),
    "C09": ("other", "byte-exact conformance: TLC emits the full term of every output of honest executions (MC_Bytes); a reference term evaluator (no opaque-ke code) computes the bytes RFC 9807 / RFC 9497 prescribe and compares them with the implementation's outputs", "5 C09"),
    "C10": (MC, "TLC model checking of spec/Wire.tla (operational decoder model, all 20 suites) + verdict-table conformance of the real decoders + classifier-guided mutation", "5 C10"),
    "C11": (MC, "TLC model checking of spec/Wire.tla (NoInvalid) + every invalid class in every field through native, bincode and JSON decoders", "5 C11"),
    "C12": ("exploration", "model-guided exploration under catch_unwind: Wire.tla verdict table + classifier-guided decoder inputs + structure-level mutation of the serde encodings, TLC-generated behaviours with over-long parameters (MC_Long), cross-delivered and tampered messages (MC_Tamper), adversarial requests (MC_Req, incl. twist / small-u Curve25519 keys), recorded histories validated by TLC", "5 C12"),
    "C13": (MC, "TLC model checking (MC_Persist: Reload is the identity) + replay with a shadow execution without reloads on the same tapes", "5 C13"),
    "C14": (MC, "TLC model checking (MC_Obliv) + replay: equality pattern of masking keys / requests / evaluation elements across blinding tapes, credential ids, seeds, static keys", "5 C14"),
    "C15": (MC, "TLC model checking (MC_Ksf: instance matrix) + replay with an instrumented KSF (call log) + TLC trace validation of KSF-matrix histories incl. failing instances and an Argon2 matrix (cost, secret, variant, version, output length)", "5 C15"),
    "C16": (MC, "TLC model checking (Agreement, ExportKeySeparated, NoSecretOnWire) + replay with a scan of all messages and files for verbatim secrets + trace validation", "5 C16"),
    "C17": (MC, "TLC model checking + replay of behaviours annotated with per-output tape dependencies: equal tapes, every step twice, independent tapes, tapes altered from every draw boundary on, single chunks replaced (role-to-bytes matching), structured tapes on which rejection sampling keeps rejecting", "5 C17"),
    "C18": (MC, "TLC model checking (MC_Ext) + replay with a shadow execution holding all keys directly, and failure of every external-key call position in every server operation that consults the key", "5 C18"),
    "C19": ("exploration", "model-enumerated exploration: TLC enumerates spec/Group.tla (key classes incl. derived, generated, extreme and imported keys x operations x reloads), the harness replays every behaviour on the key-pair API of all 5 groups x 4 OPRF suites and evaluates every term with reference curve arithmetic", "5 C19"),
}
TEXT = {
    "other": "Per-execution validation of the implementation's outputs against the specification's terms: the RFC formulas are the "
             "operators of the TLA+ specification (single source), TLC shows they make the protocol work and enumerates the shapes, a "
             "reference evaluator turns each emitted term into bytes.  Not a proof: sampled over inputs and tapes, all 20 suite combinations.",
    "exploration": "Model-guided exploration: the TLA+ specifications (Wire.tla verdict table, MC_Long / MC_Tamper behaviours, OpaqueTrace) "
                   "supply the inputs and the expected verdicts; every call into opaque-ke runs under catch_unwind and a panic or hang is "
                   "the violation.  Sampling over concrete bytes, class-guided; not exhaustive.",
    MC: "The property is an invariant of the explicit TLA+ specification, checked exhaustively by TLC on bounded "
        "configurations; the specification is bound to the implementation by replaying TLC-generated behaviours into "
        "the real API (result class + equality pattern of all outputs) and/or by TLC validating executions recorded "
        "from the real API.  Exhaustive over the abstract space of the configuration, sampled over concrete bytes.",
}


def main():
    props = [json.loads(l)["id"] for l in open(os.path.join(ROOT, "properties.jsonl"))]
    checks = []
    for pid in props:
        if pid not in CHECKS:
            continue
        level, tech, ref = CHECKS[pid]
        checks.append({
            "property_id": pid,
            "quick_cmd": f"./check {pid} --tier quick",
            "thorough_cmd": f"./check {pid} --tier thorough",
            "evidence_file": f"/verif/evidence/{pid}.json",
            "replay_cmd_template": f"./check {pid} --replay {{path}}",
            "engine": "tla-opaque",
            "level_claimed": {"category": level, "text": TEXT[level], "design_ref": "DESIGN.md section " + ref},
            "level_note": TB,
            "technique": tech,
        })
    na = [{"property_id": p, "reason": "check under construction in this framework (TLA+ configuration and conformance driver not yet registered)"}
          for p in props if p not in CHECKS]
    m = {
        "version": 1,
        "setup_cmd": "./check setup",
        "hooks": {"guard": "opaque_ke_verif",
                  "enable": "none needed: the public API exposes the abstract state; the harness links the production build of /repo (path dependency, features curve25519 argon2 serde ristretto255-voprf std) and supplies RNG / KSF / external key through the caller traits",
                  "baseline_off_cmd": "cd /repo && cargo test --workspace --no-fail-fast --offline",
                  "source_commits": [], "add_only": True},
        "engines": [{"name": "tla-opaque", "path": "/verif/spec", "serves_properties": sorted(CHECKS),
                     "kind_free_text": "explicit TLA+ specification (Terms, Opaque, OpaqueProps, MCBase, MC_*, Wire, OpaqueTrace) checked with TLC; Rust conformance harness /verif/harness (replay of TLC behaviours, recording for trace validation); orchestrator /verif/check"}],
        "checks": checks,
        "not_applicable": na,
        "notes": "Model-based verification with an explicit TLA+ specification; see DESIGN.md. Genuine defects found and repaired in /repo are listed in known_findings.json (fixed: entries).",
    }
    json.dump(m, open(os.path.join(ROOT, "MANIFEST.json"), "w"), indent=1)


if __name__ == "__main__":
    main()

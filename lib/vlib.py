"""Machinery shared by all checks: TLC runs, behaviour extraction, harness build / replay /
recording, trace validation, evidence files, known findings."""
import hashlib
import json
import os
import re
import shutil
import subprocess
import sys
import time

ROOT = os.path.dirname(os.path.dirname(os.path.abspath(__file__)))
SPEC = os.path.join(ROOT, "spec")
WORK = os.path.join(ROOT, "work")
HARNESS = os.path.join(ROOT, "harness")
HBIN = os.path.join(HARNESS, "target", "release", "opaque-verif-harness")
REPLAYS = os.path.join(ROOT, "replays")
EVID = os.path.join(ROOT, "evidence")
TLC_WORKERS = int(os.environ.get("VERIF_TLC_WORKERS", "8"))
THREADS = int(os.environ.get("VERIF_THREADS", "14"))


class ToolError(Exception):
    pass


def log(*a):
    print(*a, flush=True)


def sh(cmd, timeout, cwd=None, env=None, stream=False):
    e = dict(os.environ)
    e.update({"CARGO_NET_OFFLINE": "true"})
    if env:
        e.update(env)
    t0 = time.time()
    try:
        p = subprocess.run(cmd, cwd=cwd, env=e, timeout=timeout, stdout=subprocess.PIPE,
                           stderr=subprocess.STDOUT, text=True, errors="replace")
    except subprocess.TimeoutExpired as ex:
        out = ex.stdout if isinstance(ex.stdout, str) else (ex.stdout or b"").decode("utf8", "replace")
        raise ToolError(f"timeout after {timeout}s: {' '.join(cmd)[:200]}\n{out[-2000:]}")
    return p.returncode, p.stdout, time.time() - t0


# --------------------------------------------------------------------------- harness
_built = False


def build_harness():
    """(Re)build the harness against /repo's current working tree (cargo notices changes)."""
    global _built
    if _built:
        return
    lock = os.path.join(HARNESS, "Cargo.lock")
    if not os.path.exists(lock):
        shutil.copy("/repo/Cargo.lock", lock)
    rc, out, dt = sh(["cargo", "build", "--release", "--offline"], 3600, cwd=HARNESS)
    if rc != 0:
        errs = "\n".join(l for l in out.splitlines() if l.startswith("error") or "-->" in l)[:4000]
        raise ToolError("harness build failed (does /repo still compile?)\n" + errs + "\n" + out[-3000:])
    _built = True
    log(f"[build] harness up to date ({dt:.1f}s)")


class Hang(Exception):
    """a call into opaque-ke did not return (harness watchdog, exit code 3)"""
    def __init__(self, replay, context):
        Exception.__init__(self, context)
        self.replay, self.context = replay, context


_prop = "C00"


def harness(args, timeout=3600):
    build_harness()
    rc, out, dt = sh([HBIN] + args, timeout, env={"VERIF_REPLAY_DIR": REPLAYS, "VERIF_PROP": _prop})
    if rc == 3:
        import re
        m = re.search(r"HANG replay=(\S+) context=(.*)", out)
        raise Hang(m.group(1) if m else "", m.group(2) if m else out[-500:])
    return rc, out, dt


# ------------------------------------------------------------------------------- TLC
def _tlc_base(name):
    meta = os.path.join(WORK, "tlc_" + name)
    shutil.rmtree(meta, ignore_errors=True)
    os.makedirs(meta, exist_ok=True)
    return meta


def write_cfg(name, base_cfg, subst=None, extra_lines=None):
    """Derive a configuration file from spec/<base_cfg> with textual substitutions."""
    s = open(os.path.join(SPEC, base_cfg)).read()
    for a, b in (subst or {}).items():
        if a not in s:
            raise ToolError(f"cfg substitution {a!r} not found in {base_cfg}")
        s = s.replace(a, b)
    if extra_lines:
        s += "\n" + "\n".join(extra_lines) + "\n"
    path = os.path.join(SPEC, "_" + name + ".cfg")
    open(path, "w").write(s)
    return path


def parse_tlc(out):
    r = {"generated": 0, "distinct": 0, "violated": None, "error": None, "depth": None}
    m = re.findall(r"(\d[\d,]*) states generated, (\d[\d,]*) distinct states found", out)
    if m:
        r["generated"] = int(m[-1][0].replace(",", ""))
        r["distinct"] = int(m[-1][1].replace(",", ""))
    m = re.search(r"The number of states generated: (\d+)", out)
    if m and not r["generated"]:
        r["generated"] = int(m.group(1))
    m = re.search(r"Error: Invariant (\S+) is violated", out)
    if m:
        r["violated"] = m.group(1)
    m = re.search(r"Error: Action property (\S+) is violated", out) or re.search(r"Error: Temporal properties were violated", out)
    if m and not r["violated"]:
        r["violated"] = m.group(1) if m.groups() else "temporal"
    m = re.search(r"depth of the complete state graph search is (\d+)", out)
    if m:
        r["depth"] = int(m.group(1))
    if "Model checking completed. No error has been found." in out or "Finished in" in out:
        pass
    errs = [l for l in out.splitlines() if l.startswith("Error:") or "TLC threw" in l or "Exception" in l]
    if errs and not r["violated"]:
        r["error"] = "\n".join(errs[:6])
    return r


def tlc_check(name, module, cfg, timeout=900, workers=None, coverage=False, extra=None):
    """Exhaustive model checking of spec/<module> under configuration file cfg."""
    meta = _tlc_base(name)
    cmd = ["tlc", "-workers", str(workers or TLC_WORKERS), "-metadir", meta, "-cleanup",
           "-noGenerateSpecTE", "-config", cfg]
    if coverage:
        cmd += ["-coverage", "1"]
    cmd += (extra or []) + [module]
    rc, out, dt = sh(cmd, timeout, cwd=SPEC, env={"JAVA_TOOL_OPTIONS": "-Xss64m"})
    r = parse_tlc(out)
    r.update({"name": name, "module": module, "cfg": os.path.basename(cfg), "wall_s": round(dt, 1), "rc": rc, "out": out})
    shutil.rmtree(meta, ignore_errors=True)
    if r["error"] or (rc != 0 and not r["violated"]):
        raise ToolError(f"TLC failed on {module}/{os.path.basename(cfg)} (rc={rc}):\n{r['error']}\n{out[-3000:]}")
    log(f"[tlc] {name}: {r['distinct']} distinct / {r['generated']} generated states, {dt:.1f}s"
        + (f", VIOLATED {r['violated']}" if r["violated"] else ""))
    return r


def extract_behaviours(out, path):
    n = 0
    seen = set()
    with open(path, "w") as f:
        for line in out.splitlines():
            if line.startswith('<<"BEHAVIOUR", '):
                inner = line.strip()[len('<<"BEHAVIOUR", '):-2]
                s = json.loads(inner)
                h = hashlib.sha1(s.encode()).digest()
                if h in seen:
                    continue
                seen.add(h)
                f.write(json.dumps(json.loads(s), separators=(",", ":")) + "\n")
                n += 1
    return n


def extract_group(out, path):
    seen = set()
    with open(path, "w") as f:
        for line in out.splitlines():
            if line.startswith('<<"BEHAVIOUR", '):
                s = json.loads(line.strip()[len('<<"BEHAVIOUR", '):-2])
                if s in seen:
                    continue
                seen.add(s)
                f.write(json.dumps(json.loads(s), separators=(",", ":")) + "\n")
    return len(seen)


def tlc_generate(name, module, cfg, seed, simulate=None, timeout=3000, workers=1):
    """Behaviour generation: TLC prints one BEHAVIOUR line per behaviour (exhaustive BFS over a
    scripted configuration, or -simulate num,depth for random interleavings)."""
    meta = _tlc_base(name)
    cmd = ["tlc", "-workers", str(workers), "-metadir", meta, "-cleanup", "-noGenerateSpecTE",
           "-config", cfg]
    if simulate:
        cmd += ["-simulate", f"num={simulate[0]}", "-depth", str(simulate[1]), "-seed", str(seed + 1)]
    cmd += [module]
    rc, out, dt = sh(cmd, timeout, cwd=SPEC, env={"JAVA_TOOL_OPTIONS": "-Xss64m"})
    r = parse_tlc(out)
    shutil.rmtree(meta, ignore_errors=True)
    if r["violated"]:
        r.update({"name": name, "out": out, "wall_s": dt})
        return None, r
    if r["error"] or rc != 0:
        raise ToolError(f"TLC generation failed on {module}/{os.path.basename(cfg)} (rc={rc}):\n{r['error']}\n{out[-3000:]}")
    path = os.path.join(WORK, name + ".ndjson")
    n = extract_behaviours(out, path)
    r.update({"name": name, "behaviours": n, "path": path, "wall_s": round(dt, 1), "module": module,
              "cfg": os.path.basename(cfg)})
    log(f"[tlc-gen] {name}: {n} distinct behaviours, {r['generated']} states, {dt:.1f}s")
    if n == 0:
        raise ToolError(f"TLC generated no behaviour for {name}\n{out[-2000:]}")
    return path, r


TRACE_ENV = {"JAVA_TOOL_OPTIONS": "-Xss1g -Dtlc2.tool.queue.IStateQueue=StateDeque"}


def tlc_trace(name, trace_path, cfg="OpaqueTrace.cfg", module="OpaqueTrace.tla", timeout=900):
    """Direction B: is the recorded execution a behaviour of the specification?  Every
    invariant is evaluated on every state of the recorded trace."""
    meta = _tlc_base(name)
    cmd = ["tlc", "-workers", "1", "-metadir", meta, "-cleanup", "-noGenerateSpecTE", "-config",
           os.path.join(SPEC, cfg), module]
    env = dict(TRACE_ENV)
    env["TRACE"] = trace_path
    rc, out, dt = sh(cmd, timeout, cwd=SPEC, env=env)
    shutil.rmtree(meta, ignore_errors=True)
    r = parse_tlc(out)
    r.update({"name": name, "wall_s": round(dt, 1), "rc": rc})
    m = re.search(r'<<"TRACE-MISMATCH", (.*)>>', out)
    r["mismatch"] = m.group(0)[:3000] if m else None
    m = re.search(r'<<"TRACE-CONSUMED", (\d+), (\d+)>>', out)
    r["consumed"] = int(m.group(1)) if m else None
    r["length"] = int(m.group(2)) if m else None
    r["accepted"] = (rc == 0 and not r["violated"] and not r["mismatch"] and r["consumed"] is not None
                     and r["consumed"] == r["length"])
    if not r["accepted"] and not r["violated"] and not r["mismatch"] and (r["consumed"] is None):
        raise ToolError(f"trace validation failed to run ({name}):\n{out[-3000:]}")
    r["out_tail"] = out[-1500:]
    log(f"[tlc-trace] {name}: consumed {r['consumed']}/{r['length']} events, {dt:.1f}s, "
        + ("accepted" if r["accepted"] else f"REJECTED ({r['violated'] or r['mismatch'] or 'stuck'})"))
    return r


# ------------------------------------------------------------------- known findings
def load_known():
    p = os.path.join(ROOT, "known_findings.json")
    if not os.path.exists(p):
        return {"open": [], "fixed": []}
    return json.load(open(p))


def match_known(prop, v, known):
    """A violation is a known finding only if an OPEN entry for this property names the same
    specific call site / input class.  `v` is the violation record of the harness."""
    for k in known.get("open", []):
        if k["property"] != prop:
            continue
        ok = True
        for field, want in k.get("match", {}).items():
            have = v.get(field)
            if isinstance(want, list):
                if have not in want:
                    ok = False
            elif have != want:
                ok = False
        if ok:
            return k
    return None


# ------------------------------------------------------------------------- a check
class Check:
    def __init__(self, prop, tier, seed, level):
        self.prop, self.tier, self.seed, self.level = prop, tier, seed, level
        self.t0 = time.time()
        self.tlc = []          # per-configuration TLC statistics
        self.traces = 0        # behaviours replayed + recorded traces accepted
        self.evals = 0
        self.nontrivial = 0
        self.samples = []
        self.violations = []   # dicts with at least replay, detail
        self.known_hits = []
        self.notes = []
        self.cover = {}
        self.assumptions = [
            "symbolic (Dolev-Yao) abstraction of cryptography: distinct terms denote distinct byte strings",
            "TLC / SANY, the Rust harness, and the reference primitives (sha2, hmac, curve25519-dalek, p256/p384/p521, voprf hash-to-curve) are trusted",
            "exhaustive only within the stated constants of each TLC configuration; concrete byte strings are covered by pools, boundary values and seeded sampling",
        ]
        self.exhaustive = False
        self.rule = ""
        os.makedirs(WORK, exist_ok=True)
        os.makedirs(REPLAYS, exist_ok=True)
        os.makedirs(EVID, exist_ok=True)

    # -- TLC model checking of a configuration; a violation on the MODEL is a finding about
    #    the design (or a specification bug) and is reported with the TLC output as replay
    def model_check(self, name, module, cfg, **kw):
        r = tlc_check(name, module, cfg, **kw)
        self.tlc.append({k: r[k] for k in ("name", "module", "cfg", "distinct", "generated", "depth", "wall_s")})
        if r["violated"]:
            path = os.path.join(REPLAYS, f"{self.prop}-model-{name}.txt")
            open(path, "w").write(r["out"])
            self.violations.append({"replay": path, "kind": "model",
                                    "detail": f"TLC: invariant {r['violated']} violated in {module}/{r['cfg']}"})
        return r

    def generate(self, name, module, cfg, simulate=None, **kw):
        path, r = tlc_generate(name, module, cfg, self.seed, simulate=simulate, **kw)
        if path is None:
            p = os.path.join(REPLAYS, f"{self.prop}-model-{name}.txt")
            open(p, "w").write(r["out"])
            self.violations.append({"replay": p, "kind": "model",
                                    "detail": f"TLC: invariant {r['violated']} violated while generating {name}"})
            return None
        self.tlc.append({k: r.get(k) for k in ("name", "module", "cfg", "distinct", "generated", "behaviours", "wall_s")})
        return path

    def replay(self, behaviours, suites="quick", per_behaviour=0, profiles=0, timeout=3000, extra=None):
        out = os.path.join(WORK, f"{self.prop}_replay_{len(self.tlc)}_{int(time.time()*1000)%100000}.json")
        args = ["replay", "--behaviours", behaviours, "--suites", suites, "--seed", str(self.seed),
                "--tier", self.tier, "--prop", self.prop, "--out", out, "--threads", str(THREADS),
                "--per-behaviour", str(per_behaviour), "--profiles", str(profiles), "--replay-dir", REPLAYS]
        rc, o, dt = harness(args + (extra or []), timeout)
        if rc != 0 or not os.path.exists(out):
            raise ToolError(f"harness replay failed rc={rc}\n{o[-3000:]}")
        s = json.load(open(out))
        os.remove(out)
        self.absorb(s)
        with open(behaviours) as f:
            first = f.readline()
        if len(self.samples) < 4 and first:
            ev = json.loads(first)
            self.samples.append({"behaviour_from_TLC": ev[-6:], "note": f"last 6 of {len(ev)} events; one of {s['behaviours']} behaviours replayed on {len(s['suites'])} suites"})
        log(f"[replay] {s['behaviours']} behaviours x suites/profiles = {s['executions']} executions, "
            f"{s['events']} API steps ({s['accepting_steps']} accept / {s['rejecting_steps']} reject), "
            f"{len(s['violations'])} violations, {dt:.1f}s")
        return s

    def absorb(self, s):
        """Fold a harness summary (replay / driver) into the evidence."""
        self.traces += s.get("executions", 0)
        self.evals += s.get("events", 0)
        self.nontrivial += s.get("nontrivial", 0)
        self.cover.setdefault("suites", [])
        for x in s.get("suites", []):
            if x not in self.cover["suites"]:
                self.cover["suites"].append(x)
        for k in ("discarded_noninjective", "accepting_steps", "rejecting_steps"):
            if k in s:
                self.cover[k] = self.cover.get(k, 0) + s[k]
        for x in s.get("samples", []):
            if len(self.samples) < 6:
                self.samples.append(x)
        for v in s.get("violations", []):
            self.violations.append(v)
        for k, v in s.get("extra", {}).items():
            self.cover[k] = v

    def validate_trace(self, name, trace_path, **kw):
        r = tlc_trace(name, trace_path, **kw)
        self.tlc.append({"name": name, "module": "OpaqueTrace.tla", "distinct": r["distinct"],
                         "generated": r["generated"], "wall_s": r["wall_s"], "events": r["length"]})
        if r["accepted"]:
            self.traces += 1
        else:
            keep = os.path.join(REPLAYS, f"{self.prop}-trace-{name}.ndjson")
            shutil.copy(trace_path, keep)
            self.violations.append({"replay": keep, "kind": "trace",
                                    "detail": f"recorded execution is not a behaviour of the specification: "
                                              f"{r['violated'] or r['mismatch'] or 'stuck at event %s' % r['consumed']}"})
        return r

    def finish(self):
        known = load_known()
        real = []
        for v in self.violations:
            k = match_known(self.prop, v, known)
            if k:
                self.known_hits.append((k, v))
            else:
                real.append(v)
        printed = set()
        for k, v in self.known_hits:
            if k["id"] in printed:
                continue
            printed.add(k["id"])
            log(f"KNOWN-FINDING: property={self.prop} {k['what']}")
        states = sum(x.get("distinct") or 0 for x in self.tlc)
        trans = sum(x.get("generated") or 0 for x in self.tlc)
        cov = {
            "states": states,
            "transitions": trans,
            "traces_validated_against_impl": self.traces,
            "evaluations": max(self.evals, 1),
            "distinct_nontrivial": self.nontrivial,
            "rule": self.rule,
            "samples": self.samples or [{"note": "no sample recorded"}],
            "exhaustive": self.exhaustive,
            "configs": self.tlc,
            "explanation": "; ".join(self.notes) or self.rule,
            "known_findings_reported": [k["id"] for k, _ in self.known_hits],
        }
        cov.update(self.cover)
        ev = {
            "property_id": self.prop,
            "tier": self.tier,
            "seed": self.seed,
            "level": self.level,
            "coverage": cov,
            "assumptions": self.assumptions,
            "wall_s": round(time.time() - self.t0, 1),
            "violations": len(real),
        }
        json.dump(ev, open(os.path.join(EVID, self.prop + ".json"), "w"), indent=1)
        seen = set()
        for v in real:
            if v["replay"] in seen:
                continue
            seen.add(v["replay"])
            log(f"VIOLATION property={self.prop} replay={v['replay']}")
            log(f"  {v.get('kind','')}: {v.get('detail','')[:600]}")
        log(f"[{self.prop}] tier={self.tier} seed={self.seed} states={states} traces={self.traces} "
            f"evaluations={self.evals} violations={len(real)} wall={ev['wall_s']}s")
        return 1 if real else 0


def main(argv):
    import props
    if not argv:
        print(__doc__)
        return 2
    cmd = argv[0]
    tier = os.environ.get("VERIF_TIER", "quick")
    seed = int(os.environ.get("VERIF_SEED", "0") or 0)
    replay = None
    i = 1
    while i < len(argv):
        if argv[i] == "--tier":
            tier = argv[i + 1]
            i += 2
        elif argv[i] == "--seed":
            seed = int(argv[i + 1])
            i += 2
        elif argv[i] == "--replay":
            replay = argv[i + 1]
            i += 2
        else:
            i += 1
    try:
        if cmd == "setup":
            return props.setup()
        if cmd == "selftest":
            return props.selftest(seed)
        if replay:
            return props.replay_file(cmd, replay)
        global _prop
        _prop = cmd
        fn = getattr(props, "check_" + cmd, None)
        if fn is None:
            log(f"unknown property {cmd}")
            return 2
        return fn(tier, seed)
    except Hang as h:
        # non-termination of the code under test is a finding of C12; for every other property the check
        # cannot proceed (tool error), and C12 reports it
        if cmd == "C12":
            print(f"  nontermination: a call into opaque-ke did not return within the watchdog limit: {h.context[:300]}")
            print(f"VIOLATION property=C12 replay={h.replay}")
            return 1
        log(f"TOOL-ERROR: the implementation did not return from a call (see ./check C12): {h.context[:300]}")
        return 2
    except ToolError as e:
        log("TOOL-ERROR: " + str(e))
        return 2
